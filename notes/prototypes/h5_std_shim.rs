//! std facade routing synchronisation primitives to loom.
pub use loom;
pub use std::*;
pub mod thread { pub use loom::thread::*; }
pub mod sync {
    pub use std::sync::*;
    pub use loom::sync::{RwLock, RwLockReadGuard, RwLockWriteGuard, Mutex, MutexGuard, Condvar};
    pub mod atomic { pub use loom::sync::atomic::*; }
    pub struct LazyLock<T: 'static, F = fn() -> T> { lazy: loom::lazy_static::Lazy<T>, _f: std::marker::PhantomData<F> }
    impl<T: 'static> LazyLock<T, fn() -> T> {
        pub const fn new(f: fn() -> T) -> Self { LazyLock { lazy: loom::lazy_static::Lazy { init: f, _p: std::marker::PhantomData }, _f: std::marker::PhantomData } }
    }
    impl<T: 'static> std::ops::Deref for LazyLock<T, fn() -> T> {
        type Target = T;
        fn deref(&self) -> &T {
            let s: &'static Self = unsafe { std::mem::transmute::<&Self, &'static Self>(self) };
            s.lazy.get()
        }
    }
    unsafe impl<T: Sync + Send, F> Sync for LazyLock<T, F> {}
}
