import subprocess, sys, os, re
R='/root/scratch/mut/repo/scnr/src/'
muts = [
 ('C16d is_positive skipped when false, no default', 'pattern.rs', "    pub is_positive: bool,", "    #[cfg_attr(feature = \"serde\", serde(skip_serializing_if = \"std::ops::Not::not\"))]\n    pub is_positive: bool,"),
 ('C16e token type serialized as u32', 'pattern.rs', "    token_type: usize,\n", "    #[cfg_attr(feature = \"serde\", serde(serialize_with = \"ser_tt\"))]\n    token_type: usize,\n"),
]
extra = {'C16e token type serialized as u32': ('pattern.rs', "impl Pattern {", "#[cfg(feature = \"serde\")]\nfn ser_tt<S: serde::Serializer>(v: &usize, s: S) -> Result<S::Ok, S::Error> { s.serialize_u32(*v as u32) }\nimpl Pattern {")}
env = dict(os.environ, CARGO_NET_OFFLINE='true', CARGO_TARGET_DIR='/root/scratch/target-mut')
only = sys.argv[1:] 
for name, f, old, new in muts:
    if only and not any(name.startswith(o) for o in only): continue
    if old == new: continue
    path = R + f
    src = open(path).read()
    if old not in src:
        print(f'{name}: PATTERN NOT FOUND'); continue
    m = src.replace(old, new, 1)
    if name in extra:
        ef, eo, en = extra[name]; assert ef == f and eo in m; m = m.replace(eo, en, 1)
    open(path, 'w').write(m)
    r = subprocess.run(['cargo', 'test', '--workspace', '--no-fail-fast', '--offline'], cwd='/root/scratch/mut/repo', env=env, capture_output=True, text=True)
    out = r.stdout + r.stderr
    if 'error[' in out or 'could not compile' in out:
        res = 'DOES NOT COMPILE: ' + ' | '.join(l for l in out.splitlines() if l.startswith('error'))[:300]
    else:
        failed = re.findall(r'^test (\S+) \.\.\. FAILED', out, re.M)
        res = 'suite GREEN' if not failed else f'suite RED ({len(failed)}): ' + ', '.join(failed)[:300]
    print(f'{name}: {res}', flush=True)
    open(path, 'w').write(src)
