use loom::thread;
use scnr::*;
use std::sync::atomic::{AtomicUsize, Ordering};
use std::sync::Mutex;
use std::collections::BTreeSet;

fn cfg(p: &str) -> Vec<ScannerMode> { vec![ScannerMode::new("M", vec![Pattern::new(p.to_string(), 0)], vec![])] }
fn run(p: &str, input: &str) -> std::result::Result<Vec<(usize,usize,usize)>, String> {
    ScannerBuilder::new().add_scanner_modes(&cfg(p)).build().map(|s| s.find_iter(input).map(|m| (m.token_type(), m.start(), m.end())).collect()).map_err(|_e| "err".to_string())
}
static EXECS: AtomicUsize = AtomicUsize::new(0);
fn main() {
    let outcomes: &'static Mutex<BTreeSet<String>> = Box::leak(Box::new(Mutex::new(BTreeSet::new())));
    let t0 = std::time::Instant::now();
    let mut b = loom::model::Builder::new();
    b.preemption_bound = None;
    b.check(move || {
        EXECS.fetch_add(1, Ordering::Relaxed);
        let hs: Vec<_> = ["a+", "a+", "(?i)a"].iter().map(|p| { let p = p.to_string(); thread::spawn(move || {
            let r1 = run(&p, "aab a");
            let r2 = run("b", "aab a");
            (r1, r2)
        })}).collect();
        let rs: Vec<_> = hs.into_iter().map(|h| h.join().unwrap()).collect();
        outcomes.lock().unwrap().insert(format!("{:?}", rs));
    });
    println!("execs={} outcomes={} {:?}", EXECS.load(Ordering::Relaxed), outcomes.lock().unwrap().len(), t0.elapsed());
}
