use scnr::*;
use std::collections::{HashMap, VecDeque};
#[derive(Clone, Debug, PartialEq, Eq, Hash)]
enum Op { Next, Peek(usize), AdvPeek(usize), SetOffset(usize), SetMode(usize) }
type Snap = (usize, usize, char, Vec<usize>, usize, usize);
fn truepos(input: &str, o: usize) -> (usize, usize) { let b = &input[..o]; (1 + b.matches('\n').count(), o - b.rfind('\n').map(|i| i + 1).unwrap_or(0) + 1) }
fn replay<'a>(sc: &Scanner, input: &'a str, hist: &[Op]) -> FindMatches<'a> {
    let mut it = sc.find_iter(input);
    for op in hist { apply(&mut it, op); }
    it
}
fn apply(it: &mut FindMatches, op: &Op) -> String {
    match op {
        Op::Next => format!("{:?}", it.next().map(|m| (m.token_type(), m.start(), m.end()))),
        Op::Peek(n) => format!("{:?}", it.peek_n(*n)),
        Op::AdvPeek(k) => { let ends: Vec<usize> = match it.peek_n(k + 1) { PeekResult::Matches(v) | PeekResult::MatchesReachedEnd(v) => v.iter().map(|m| m.end()).collect(), PeekResult::MatchesReachedModeSwitch((v, _)) => v.iter().map(|m| m.end()).collect(), PeekResult::NotFound => vec![] }; if let Some(e) = ends.get(*k) { it.advance_to(*e); format!("adv {}", e) } else { "adv-none".into() } }
        Op::SetOffset(o) => { it.set_offset(*o); String::new() }
        Op::SetMode(m) => { it.set_mode(*m); String::new() }
    }
}
fn main() {
    let modes = vec![
        ScannerMode::new("A", vec![Pattern::new("a+".into(), 0), Pattern::new("\n".into(), 1), Pattern::new("b".into(), 2)], vec![(2, 1)]),
        ScannerMode::new("B", vec![Pattern::new("a".into(), 0), Pattern::new("b\na".into(), 3), Pattern::new("b".into(), 2)], vec![(2, 0)]),
    ];
    let sc = ScannerBuilder::new().add_scanner_modes(&modes).build_uncached().unwrap();
    let alpha = ['a', 'b', '\n', 'x'];
    let mut tot_states = 0usize; let mut tot_trans = 0usize; let mut max_states = 0usize; let mut npairs = 0usize; let mut posbad = 0usize; let mut first_bad: Option<(String, Vec<Op>, String)> = None;
    let t = std::time::Instant::now();
    for len in 0..=5usize { let n = alpha.len().pow(len as u32); for mut k in 0..n {
        let mut input = String::new(); for _ in 0..len { input.push(alpha[k % 4]); k /= 4; }
        npairs += 1;
        let mut ops = vec![Op::Next, Op::Peek(2), Op::AdvPeek(0), Op::AdvPeek(1), Op::SetMode(0), Op::SetMode(1)];
        for o in 0..=input.len() + 1 { ops.push(Op::SetOffset(o)); }
        let mut seen: HashMap<Snap, Vec<Op>> = HashMap::new();
        let mut q: VecDeque<Vec<Op>> = VecDeque::new();
        let init = replay(&sc, &input, &[]).verif_state(); seen.insert(init, vec![]); q.push_back(vec![]);
        while let Some(h) = q.pop_front() {
            for op in &ops {
                let mut it = replay(&sc, &input, &h);
                let _ = apply(&mut it, op); tot_trans += 1;
                let snap = it.verif_state();
                // position oracle on scanned offsets (use hwm approx: all offsets, only compare line starts recorded): check start positions of next token
                let mut h2 = h.clone(); h2.push(op.clone());
                if !seen.contains_key(&snap) {
                    // check: line_offsets must all be true line starts
                    for &lo in &snap.3 { if lo != 0 && !(lo <= input.len() && input.as_bytes()[lo - 1] == b'\n') { posbad += 1; if first_bad.is_none() { first_bad = Some((input.clone(), h2.clone(), format!("{:?}", snap))); } break; } }
                    seen.insert(snap, h2.clone()); q.push_back(h2);
                }
            }
            if seen.len() > 200000 { println!("cap hit for {:?}", input); break; }
        }
        tot_states += seen.len(); max_states = max_states.max(seen.len());
    }}
    let _ = truepos;
    println!("pairs {} states {} (max {}) transitions {} bogus-line-start states {} in {:?}", npairs, tot_states, max_states, tot_trans, posbad, t.elapsed());
    println!("first bogus: {:?}", first_bad);
}
