use regex_syntax::ast::{self, Ast};
use scnr::*;
use std::collections::{BTreeSet, BTreeMap};
use std::panic::catch_unwind;

fn item_has(i: &ast::ClassSetItem, c: char) -> bool {
    use ast::ClassSetItem::*;
    match i {
        Empty(_) => false,
        Literal(l) => if l.c == '.' && l.kind == ast::LiteralKind::Verbatim { c != '\n' && c != '\r' } else { l.c == c },
        Range(r) => r.start.c <= c && c <= r.end.c,
        Perl(p) => perl(p, c),
        Bracketed(b) => bracket(b, c),
        Union(u) => u.items.iter().any(|i| item_has(i, c)),
        _ => panic!("atom not in prototype"),
    }
}
fn perl(p: &ast::ClassPerl, c: char) -> bool {
    let r = match p.kind { ast::ClassPerlKind::Digit => c.is_ascii_digit(), ast::ClassPerlKind::Space => c == ' ' || c == '\n' || c == '\t' || c == '\r', ast::ClassPerlKind::Word => c.is_alphanumeric() || c == '_' };
    r != p.negated
}
fn set_has(s: &ast::ClassSet, c: char) -> bool {
    match s { ast::ClassSet::Item(i) => item_has(i, c), ast::ClassSet::BinaryOp(b) => { let (l, r) = (set_has(&b.lhs, c), set_has(&b.rhs, c)); match b.kind { ast::ClassSetBinaryOpKind::Intersection => l && r, ast::ClassSetBinaryOpKind::Difference => l && !r, ast::ClassSetBinaryOpKind::SymmetricDifference => l != r } } }
}
fn bracket(b: &ast::ClassBracketed, c: char) -> bool { set_has(&b.kind, c) != b.negated }

// ends(node, i): set of j such that node matches chars[i..j]
fn ends(a: &Ast, cs: &[char], i: usize) -> BTreeSet<usize> {
    let one = |ok: bool| { let mut s = BTreeSet::new(); if i < cs.len() && ok { s.insert(i + 1); } s };
    match a {
        Ast::Empty(_) => [i].into_iter().collect(),
        Ast::Literal(l) => one(i < cs.len() && cs[i] == l.c),
        Ast::Dot(_) => one(i < cs.len() && cs[i] != '\n' && cs[i] != '\r'),
        Ast::ClassPerl(p) => one(i < cs.len() && perl(p, cs[i])),
        Ast::ClassBracketed(b) => one(i < cs.len() && bracket(b, cs[i])),
        Ast::Group(g) => ends(&g.ast, cs, i),
        Ast::Alternation(x) => x.asts.iter().flat_map(|a| ends(a, cs, i)).collect(),
        Ast::Concat(x) => { let mut cur: BTreeSet<usize> = [i].into_iter().collect(); for a in &x.asts { cur = cur.iter().flat_map(|&j| ends(a, cs, j)).collect(); } cur }
        Ast::Repetition(r) => {
            let (min, max): (u32, Option<u32>) = match &r.op.kind { ast::RepetitionKind::ZeroOrOne => (0, Some(1)), ast::RepetitionKind::ZeroOrMore => (0, None), ast::RepetitionKind::OneOrMore => (1, None),
                ast::RepetitionKind::Range(ast::RepetitionRange::Exactly(n)) => (*n, Some(*n)), ast::RepetitionKind::Range(ast::RepetitionRange::AtLeast(n)) => (*n, None), ast::RepetitionKind::Range(ast::RepetitionRange::Bounded(m, n)) => (*m, Some(*n)) };
            let mut res = BTreeSet::new();
            let mut cur: BTreeSet<usize> = [i].into_iter().collect();
            let mut k = 0u32;
            let mut seen: BTreeSet<BTreeSet<usize>> = BTreeSet::new();
            loop {
                if k >= min { res.extend(cur.iter().cloned()); }
                if let Some(m) = max { if k >= m { break; } }
                let nxt: BTreeSet<usize> = cur.iter().flat_map(|&j| ends(&r.ast, cs, j)).collect();
                if nxt.is_empty() { break; }
                k += 1;
                if max.is_none() && k > min && !seen.insert(nxt.clone()) { break; }
                if k as usize > cs.len() + min as usize + 2 { if k >= min { res.extend(nxt.iter().cloned()); } break; }
                cur = nxt;
            }
            res
        }
        _ => panic!("unsupported in prototype"),
    }
}
// admissible set at position p: returns None if no candidate, else (idx, set of ends)
fn admissible(pats: &[(Ast, Option<(bool, Ast)>)], cs: &[char], p: usize) -> Option<(usize, BTreeSet<usize>)> {
    let mut best_extent = 0usize; let mut cands: Vec<(usize, usize, usize)> = vec![]; // (idx, end, extent)
    for (idx, (a, la)) in pats.iter().enumerate() {
        for &e in ends(a, cs, p).iter().filter(|&&e| e > p) {
            let (ok, lalen) = match la { None => (true, 0), Some((pos, l)) => { let m = ends(l, cs, e).into_iter().filter(|&j| j > e).max(); match (pos, m) { (true, Some(j)) => (true, j - e), (true, None) => (false, 0), (false, Some(_)) => (false, 0), (false, None) => (true, 0) } } };
            if ok { let ext = (e - p) + lalen; cands.push((idx, e, ext)); if ext > best_extent { best_extent = ext; } }
        }
    }
    if cands.is_empty() { return None; }
    let w: Vec<_> = cands.iter().filter(|c| c.2 == best_extent).collect();
    let i = w.iter().map(|c| c.0).min().unwrap();
    Some((i, w.iter().filter(|c| c.0 == i).map(|c| c.1).collect()))
}
use std::collections::{HashMap, VecDeque};

#[derive(Clone, Debug, PartialEq, Eq, Hash)]
enum Op { Next, Peek(usize), AdvPeek(usize), SetOffset(usize), SetMode(usize) }
type Snap = (usize, usize, char, Vec<usize>, usize, usize);
struct Cfg { modes: Vec<(Vec<(String, usize, Option<(bool, String)>)>, Vec<(usize, usize)>)> }
struct Model<'a> { cfg: &'a Cfg, asts: Vec<Vec<(Ast, Option<(bool, Ast)>)>>, cs: Vec<char>, boff: Vec<usize>, c: usize, m: usize, hwm: usize }
impl<'a> Model<'a> {
    fn ci(&self, byte: usize) -> usize { self.boff.iter().position(|&b| b == byte).unwrap() }
    fn trans(&self, m: usize, ty: usize) -> Option<usize> { self.cfg.modes[m].1.iter().find(|(t, _)| *t == ty).map(|(_, to)| *to) }
    // scan from char index p in mode m: Some((type, start_ci, set of end_ci))
    fn tok_from(&self, mut p: usize, m: usize) -> Option<(usize, usize, BTreeSet<usize>)> {
        while p < self.cs.len() { if let Some((i, es)) = admissible(&self.asts[m], &self.cs, p) { return Some((self.cfg.modes[m].0[i].1, p, es)); } p += 1; }
        None
    }
}
fn run(cfg: &Cfg, sc: &Scanner, input: &str, stats: &mut (usize, usize, usize), bad: &mut Vec<String>) {
    let cs: Vec<char> = input.chars().collect();
    let mut boff = vec![0usize]; for c in &cs { boff.push(boff.last().unwrap() + c.len_utf8()); }
    let parse = |p: &str| ast::parse::Parser::new().parse(p).unwrap();
    let asts: Vec<Vec<(Ast, Option<(bool, Ast)>)>> = cfg.modes.iter().map(|(ps, _)| ps.iter().map(|(p, _, la)| (parse(p), la.as_ref().map(|(b, l)| (*b, parse(l))))).collect()).collect();
    let mut ops = vec![Op::Next, Op::Peek(0), Op::Peek(1), Op::Peek(2), Op::Peek(cs.len() + 1), Op::AdvPeek(0), Op::AdvPeek(1)];
    for m in 0..cfg.modes.len() { ops.push(Op::SetMode(m)); }
    for &b in &boff { ops.push(Op::SetOffset(b)); } ops.push(Op::SetOffset(input.len() + 1));
    let mut seen: HashMap<Snap, ()> = HashMap::new();
    let mut q: VecDeque<Vec<Op>> = VecDeque::new();
    q.push_back(vec![]); seen.insert(sc.find_iter(input).verif_state(), ());
    while let Some(h) = q.pop_front() {
        for op in &ops {
            // replay history on real iterator and model
            let mut it = sc.find_iter(input);
            let mut mo = Model { cfg, asts: asts.clone(), cs: cs.clone(), boff: boff.clone(), c: 0, m: 0, hwm: 0 };
            let mut h2 = h.clone(); h2.push(op.clone());
            let mut verdict: Option<String> = None;
            for (k, o) in h2.iter().enumerate() {
                let last = k + 1 == h2.len();
                match o {
                    Op::Next => { let got = it.next().map(|m| (m.token_type(), m.start(), m.end()));
                        match mo.tok_from(mo.c, mo.m) {
                            None => { if last && got.is_some() { verdict = Some(format!("next: expected None got {:?}", got)); } if mo.c <= mo.hwm { mo.hwm = cs.len(); } mo.c = cs.len(); }
                            Some((ty, s, es)) => { match got { Some((gt, gs, ge)) if gt == ty && gs == boff[s] && es.iter().any(|&e| boff[e] == ge) => { let e = mo.ci(ge); if mo.c <= mo.hwm { mo.hwm = mo.hwm.max(e); } mo.c = e; if let Some(to) = mo.trans(mo.m, ty) { mo.m = to; } }
                                _ => { if last { verdict = Some(format!("next: expected ({},{},{:?}) got {:?}", ty, boff[s], es.iter().map(|&e| boff[e]).collect::<Vec<_>>(), got)); } break; } } }
                        } }
                    Op::Peek(n) => { let before = it.verif_state(); let got = it.peek_n(*n); if it.verif_state() != before && last { verdict = Some("peek not pure".into()); }
                        // model peek
                        let mut list = vec![]; let mut p = mo.c; let mut sw = None; let mut amb = false;
                        while list.len() < *n { match mo.tok_from(p, mo.m) { None => break, Some((ty, s, es)) => { if es.len() > 1 { amb = true; } let e = *es.iter().next().unwrap(); list.push((ty, boff[s], boff[e])); p = e; if let Some(to) = mo.trans(mo.m, ty) { sw = Some(to); break; } } } }
                        if last && !amb { let g = |v: &Vec<Match>| v.iter().map(|m| (m.token_type(), m.start(), m.end())).collect::<Vec<_>>();
                            let ok = match (&got, sw) { (PeekResult::MatchesReachedModeSwitch((v, t)), Some(to)) => g(v) == list && *t == to, (PeekResult::Matches(v), Some(_)) => g(v) == list && list.len() == *n, (PeekResult::Matches(v), None) => g(v) == list && list.len() == *n, (PeekResult::MatchesReachedEnd(v), None) => g(v) == list && list.len() < *n && !list.is_empty(), (PeekResult::NotFound, None) => list.is_empty() && *n > 0, _ => false };
                            if !ok { verdict = Some(format!("peek({}): expected {:?} sw {:?} got {:?}", n, list, sw, got)); } } }
                    Op::AdvPeek(k) => { let ends: Vec<usize> = match it.peek_n(k + 1) { PeekResult::Matches(v) | PeekResult::MatchesReachedEnd(v) => v.iter().map(|m| m.end()).collect(), PeekResult::MatchesReachedModeSwitch((v, _)) => v.iter().map(|m| m.end()).collect(), PeekResult::NotFound => vec![] };
                        if let Some(e) = ends.get(*k) { it.advance_to(*e); if let Some(ci) = boff.iter().position(|&b| b == *e) { if mo.c <= mo.hwm { mo.hwm = mo.hwm.max(ci); } mo.c = ci; } else { if last { verdict = Some("peek end not on boundary".into()); } break; } } }
                    Op::SetOffset(o) => { it.set_offset(*o); mo.c = boff.iter().position(|&b| b == (*o).min(input.len())).unwrap(); }
                    Op::SetMode(m) => { it.set_mode(*m); mo.m = *m; }
                }
                if last && verdict.is_none() {
                    if it.current_mode() != mo.m { verdict = Some(format!("mode: expected {} got {}", mo.m, it.current_mode())); }
                    for ci in 0..=mo.hwm { let o = boff[ci]; let p = it.position(o); let before = &input[..o]; let line = 1 + before.matches('\n').count(); let ls = before.rfind('\n').map(|i| i + 1).unwrap_or(0); let truep = (line, o - ls + 1);
                        let alt = if o > 0 && input.as_bytes()[o - 1] == b'\n' { let b2 = &input[..o - 1]; let l2 = 1 + b2.matches('\n').count(); let ls2 = b2.rfind('\n').map(|i| i + 1).unwrap_or(0); Some((l2, o - ls2 + 1)) } else { None };
                        if (p.line, p.column) != truep && Some((p.line, p.column)) != alt { verdict = Some(format!("position({}): expected {:?} or {:?} got {:?}", o, truep, alt, (p.line, p.column))); break; } }
                }
            }
            stats.1 += 1;
            if let Some(v) = verdict { stats.2 += 1; if bad.len() < 12 { bad.push(format!("{:?} {:?}: {}", input, h2, v)); } continue; }
            let snap = it.verif_state();
            if !seen.contains_key(&snap) { seen.insert(snap, ()); q.push_back(h2); }
        }
    }
    stats.0 += seen.len();
}
fn main() {
    let s = |x: &str| x.to_string();
    let cfgs = vec![
        Cfg { modes: vec![(vec![(s("a+"), 0, None), (s("\n"), 1, None), (s("b"), 2, None)], vec![(2, 1)]), (vec![(s("a"), 0, None), (s("b\na"), 3, None), (s("b"), 2, None)], vec![(2, 0)])] },
        Cfg { modes: vec![(vec![(s("a"), 0, Some((true, s("b")))), (s("ab"), 1, Some((false, s("a")))), (s("b+"), 2, None)], vec![(1, 1), (2, 0)]), (vec![(s("[ab]"), 5, None)], vec![(5, 0)])] },
    ];
    for (ci, cfg) in cfgs.iter().enumerate() {
        let modes: Vec<ScannerMode> = cfg.modes.iter().enumerate().map(|(i, (ps, tr))| ScannerMode::new(&format!("M{}", i), ps.iter().map(|(p, t, la)| { let x = Pattern::new(p.clone(), *t); match la { Some((b, l)) => x.with_lookahead(Lookahead::new(*b, l.clone())), None => x } }), tr.clone())).collect();
        let sc = ScannerBuilder::new().add_scanner_modes(&modes).build_uncached().unwrap();
        let alpha = ['a', 'b', '\n', 'é'];
        let mut stats = (0usize, 0usize, 0usize); let mut bad = vec![]; let mut npairs = 0;
        let t = std::time::Instant::now();
        for len in 0..=4usize { let n = alpha.len().pow(len as u32); for mut k in 0..n { let mut input = String::new(); for _ in 0..len { input.push(alpha[k % 4]); k /= 4; } npairs += 1; run(cfg, &sc, &input, &mut stats, &mut bad); } }
        println!("cfg {} inputs {} states {} transitions {} disagreements {} in {:?}", ci, npairs, stats.0, stats.1, stats.2, t.elapsed());
        for b in bad { println!("    {}", b); }
    }
}
