use regex_syntax::ast::{self, Ast};
use scnr::*;
use std::collections::{BTreeSet, BTreeMap};
use std::panic::catch_unwind;

fn item_has(i: &ast::ClassSetItem, c: char) -> bool {
    use ast::ClassSetItem::*;
    match i {
        Empty(_) => false,
        Literal(l) => if l.c == '.' && l.kind == ast::LiteralKind::Verbatim { c != '\n' && c != '\r' } else { l.c == c },
        Range(r) => r.start.c <= c && c <= r.end.c,
        Perl(p) => perl(p, c),
        Bracketed(b) => bracket(b, c),
        Union(u) => u.items.iter().any(|i| item_has(i, c)),
        _ => panic!("atom not in prototype"),
    }
}
fn perl(p: &ast::ClassPerl, c: char) -> bool {
    let r = match p.kind { ast::ClassPerlKind::Digit => c.is_numeric(), ast::ClassPerlKind::Space => c.is_whitespace(), ast::ClassPerlKind::Word => c.is_alphanumeric() || c == '_' };
    r != p.negated
}
fn set_has(s: &ast::ClassSet, c: char) -> bool {
    match s { ast::ClassSet::Item(i) => item_has(i, c), ast::ClassSet::BinaryOp(b) => { let (l, r) = (set_has(&b.lhs, c), set_has(&b.rhs, c)); match b.kind { ast::ClassSetBinaryOpKind::Intersection => l && r, ast::ClassSetBinaryOpKind::Difference => l && !r, ast::ClassSetBinaryOpKind::SymmetricDifference => l != r } } }
}
fn bracket(b: &ast::ClassBracketed, c: char) -> bool { set_has(&b.kind, c) != b.negated }

// ends(node, i): set of j such that node matches chars[i..j]
fn ends(a: &Ast, cs: &[char], i: usize) -> BTreeSet<usize> {
    let one = |ok: bool| { let mut s = BTreeSet::new(); if i < cs.len() && ok { s.insert(i + 1); } s };
    match a {
        Ast::Empty(_) => [i].into_iter().collect(),
        Ast::Literal(l) => one(i < cs.len() && cs[i] == l.c),
        Ast::Dot(_) => one(i < cs.len() && cs[i] != '\n' && cs[i] != '\r'),
        Ast::ClassPerl(p) => one(i < cs.len() && perl(p, cs[i])),
        Ast::ClassBracketed(b) => one(i < cs.len() && bracket(b, cs[i])),
        Ast::Group(g) => ends(&g.ast, cs, i),
        Ast::Alternation(x) => x.asts.iter().flat_map(|a| ends(a, cs, i)).collect(),
        Ast::Concat(x) => { let mut cur: BTreeSet<usize> = [i].into_iter().collect(); for a in &x.asts { cur = cur.iter().flat_map(|&j| ends(a, cs, j)).collect(); } cur }
        Ast::Repetition(r) => {
            let (min, max): (u32, Option<u32>) = match &r.op.kind { ast::RepetitionKind::ZeroOrOne => (0, Some(1)), ast::RepetitionKind::ZeroOrMore => (0, None), ast::RepetitionKind::OneOrMore => (1, None),
                ast::RepetitionKind::Range(ast::RepetitionRange::Exactly(n)) => (*n, Some(*n)), ast::RepetitionKind::Range(ast::RepetitionRange::AtLeast(n)) => (*n, None), ast::RepetitionKind::Range(ast::RepetitionRange::Bounded(m, n)) => (*m, Some(*n)) };
            let mut res = BTreeSet::new();
            let mut cur: BTreeSet<usize> = [i].into_iter().collect();
            let mut k = 0u32;
            let mut seen: BTreeSet<BTreeSet<usize>> = BTreeSet::new();
            loop {
                if k >= min { res.extend(cur.iter().cloned()); }
                if let Some(m) = max { if k >= m { break; } }
                let nxt: BTreeSet<usize> = cur.iter().flat_map(|&j| ends(&r.ast, cs, j)).collect();
                if nxt.is_empty() { break; }
                k += 1;
                if max.is_none() && k > min && !seen.insert(nxt.clone()) { break; }
                if k as usize > cs.len() + min as usize + 2 { if k >= min { res.extend(nxt.iter().cloned()); } break; }
                cur = nxt;
            }
            res
        }
        _ => panic!("unsupported in prototype"),
    }
}
// admissible set at position p: returns None if no candidate, else (idx, set of ends)
fn admissible(pats: &[(Ast, Option<(bool, Ast)>)], cs: &[char], p: usize) -> Option<(usize, BTreeSet<usize>)> {
    let mut best_extent = 0usize; let mut cands: Vec<(usize, usize, usize)> = vec![]; // (idx, end, extent)
    for (idx, (a, la)) in pats.iter().enumerate() {
        for &e in ends(a, cs, p).iter().filter(|&&e| e > p) {
            let (ok, lalen) = match la { None => (true, 0), Some((pos, l)) => { let m = ends(l, cs, e).into_iter().filter(|&j| j > e).max(); match (pos, m) { (true, Some(j)) => (true, j - e), (true, None) => (false, 0), (false, Some(_)) => (false, 0), (false, None) => (true, 0) } } };
            if ok { let ext = (e - p) + lalen; cands.push((idx, e, ext)); if ext > best_extent { best_extent = ext; } }
        }
    }
    if cands.is_empty() { return None; }
    let w: Vec<_> = cands.iter().filter(|c| c.2 == best_extent).collect();
    let i = w.iter().map(|c| c.0).min().unwrap();
    Some((i, w.iter().filter(|c| c.0 == i).map(|c| c.1).collect()))
}

fn main() {
    std::panic::set_hook(Box::new(|_| {}));
    let cases = [("/repo/scnr/tests/data/parol.json", "/repo/scnr/tests/data/parol.input"), ("/repo/scnr/tests/data/string.json", "/repo/scnr/tests/data/string.input"), ("/repo/scnr/tests/data/nongreedy1.json", "/repo/scnr/tests/data/nongreedy1.input"), ("/repo/scnr/tests/data/nongreedy2.json", "/repo/scnr/tests/data/nongreedy2.input"), ("/repo/scnr/tests/data/positive_lookahead_p.json", "/repo/scnr/tests/data/positive_lookahead_p.input"), ("/repo/scnr/tests/data/positive_lookahead_n.json", "/repo/scnr/tests/data/positive_lookahead_n.input"), ("/repo/scnr/tests/data/negative_lookahead_p.json", "/repo/scnr/tests/data/negative_lookahead_p.input"), ("/repo/scnr/tests/data/negative_lookahead_n.json", "/repo/scnr/tests/data/negative_lookahead_n.input"), ("/repo/scnr/benches/veryl_modes.json", "/repo/scnr/benches/veryl_input.veryl"), ("/repo/scnr/benches/veryl_modes.json", "/repo/scnr/benches/input_1.par")];
    for (mf, inf) in cases {
        let v: serde_json::Value = serde_json::from_reader(std::fs::File::open(mf).unwrap()).unwrap();
        let modes: Vec<ScannerMode> = serde_json::from_value(v.clone()).unwrap();
        let input = std::fs::read_to_string(inf).unwrap().replace("\r\n", "\n");
        let sc = ScannerBuilder::new().add_scanner_modes(&modes).build_uncached().unwrap();
        // model config from json
        let parse = |p: &str| ast::parse::Parser::new().parse(p).unwrap();
        let mcfg: Vec<(Vec<(Ast, Option<(bool, Ast)>, usize)>, Vec<(usize, usize)>)> = v.as_array().unwrap().iter().map(|m| (m["patterns"].as_array().unwrap().iter().map(|p| (parse(p["pattern"].as_str().unwrap()), p.get("lookahead").map(|l| (l["is_positive"].as_bool().unwrap(), parse(l["pattern"].as_str().unwrap()))), p["token_type"].as_u64().unwrap() as usize)).collect(), m["transitions"].as_array().unwrap().iter().map(|t| (t[0].as_u64().unwrap() as usize, t[1].as_u64().unwrap() as usize)).collect())).collect();
        let cs: Vec<char> = input.chars().collect();
        let mut boff = vec![0usize]; for c in &cs { boff.push(boff.last().unwrap() + c.len_utf8()); }
        let t = std::time::Instant::now();
        let got: Vec<(usize, usize, usize)> = match catch_unwind(std::panic::AssertUnwindSafe(|| sc.find_iter(&input).map(|m| (m.token_type(), m.start(), m.end())).collect())) { Ok(g) => g, Err(_) => { println!("{} on {}: PANIC", mf, inf); continue; } };
        let mut p = 0usize; let mut m = 0usize; let mut k = 0usize; let mut verdict = None; let mut ntok = 0;
        while p < cs.len() {
            let pats: Vec<(Ast, Option<(bool, Ast)>)> = mcfg[m].0.iter().map(|(a, l, _)| (a.clone(), l.clone())).collect();
            match admissible(&pats, &cs, p) {
                None => { if k < got.len() && got[k].1 == boff[p] { verdict = Some(format!("token at {} where none admissible: {:?}", boff[p], got[k])); break; } p += 1; }
                Some((i, es)) => { let ty = mcfg[m].0[i].2; if k >= got.len() || got[k].1 != boff[p] { verdict = Some(format!("missing token at {} (expected type {} ends {:?}), got next {:?}", boff[p], ty, es.iter().map(|&e| boff[e]).collect::<Vec<_>>(), got.get(k))); break; }
                    if got[k].0 != ty || !es.iter().any(|&e| boff[e] == got[k].2) { verdict = Some(format!("at {}: expected type {} ends {:?}, got {:?} text {:?}", boff[p], ty, es.iter().map(|&e| boff[e]).collect::<Vec<_>>(), got[k], &input[got[k].1..got[k].2.min(input.len())])); break; }
                    p = boff.iter().position(|&b| b == got[k].2).unwrap(); k += 1; ntok += 1; if let Some((_, to)) = mcfg[m].1.iter().find(|(t, _)| *t == ty) { m = *to; } }
            }
        }
        if verdict.is_none() && k != got.len() { verdict = Some("extra tokens".into()); }
        println!("{} on {} ({} chars, {} tokens checked, {:?}): {}", mf.rsplit('/').next().unwrap(), inf.rsplit('/').next().unwrap(), cs.len(), ntok, t.elapsed(), verdict.unwrap_or("AGREE".into()));
    }
}
