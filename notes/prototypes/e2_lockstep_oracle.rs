use regex_syntax::ast::{self, Ast};
use scnr::*;
use std::collections::{BTreeSet, BTreeMap};
use std::panic::catch_unwind;

fn item_has(i: &ast::ClassSetItem, c: char) -> bool {
    use ast::ClassSetItem::*;
    match i {
        Empty(_) => false,
        Literal(l) => if l.c == '.' && l.kind == ast::LiteralKind::Verbatim { c != '\n' && c != '\r' } else { l.c == c },
        Range(r) => r.start.c <= c && c <= r.end.c,
        Perl(p) => perl(p, c),
        Bracketed(b) => bracket(b, c),
        Union(u) => u.items.iter().any(|i| item_has(i, c)),
        _ => panic!("atom not in prototype"),
    }
}
fn perl(p: &ast::ClassPerl, c: char) -> bool {
    let r = match p.kind { ast::ClassPerlKind::Digit => c.is_ascii_digit(), ast::ClassPerlKind::Space => c == ' ' || c == '\n' || c == '\t' || c == '\r', ast::ClassPerlKind::Word => c.is_alphanumeric() || c == '_' };
    r != p.negated
}
fn set_has(s: &ast::ClassSet, c: char) -> bool {
    match s { ast::ClassSet::Item(i) => item_has(i, c), ast::ClassSet::BinaryOp(b) => { let (l, r) = (set_has(&b.lhs, c), set_has(&b.rhs, c)); match b.kind { ast::ClassSetBinaryOpKind::Intersection => l && r, ast::ClassSetBinaryOpKind::Difference => l && !r, ast::ClassSetBinaryOpKind::SymmetricDifference => l != r } } }
}
fn bracket(b: &ast::ClassBracketed, c: char) -> bool { set_has(&b.kind, c) != b.negated }

// ends(node, i): set of j such that node matches chars[i..j]
fn ends(a: &Ast, cs: &[char], i: usize) -> BTreeSet<usize> {
    let one = |ok: bool| { let mut s = BTreeSet::new(); if i < cs.len() && ok { s.insert(i + 1); } s };
    match a {
        Ast::Empty(_) => [i].into_iter().collect(),
        Ast::Literal(l) => one(i < cs.len() && cs[i] == l.c),
        Ast::Dot(_) => one(i < cs.len() && cs[i] != '\n' && cs[i] != '\r'),
        Ast::ClassPerl(p) => one(i < cs.len() && perl(p, cs[i])),
        Ast::ClassBracketed(b) => one(i < cs.len() && bracket(b, cs[i])),
        Ast::Group(g) => ends(&g.ast, cs, i),
        Ast::Alternation(x) => x.asts.iter().flat_map(|a| ends(a, cs, i)).collect(),
        Ast::Concat(x) => { let mut cur: BTreeSet<usize> = [i].into_iter().collect(); for a in &x.asts { cur = cur.iter().flat_map(|&j| ends(a, cs, j)).collect(); } cur }
        Ast::Repetition(r) => {
            let (min, max): (u32, Option<u32>) = match &r.op.kind { ast::RepetitionKind::ZeroOrOne => (0, Some(1)), ast::RepetitionKind::ZeroOrMore => (0, None), ast::RepetitionKind::OneOrMore => (1, None),
                ast::RepetitionKind::Range(ast::RepetitionRange::Exactly(n)) => (*n, Some(*n)), ast::RepetitionKind::Range(ast::RepetitionRange::AtLeast(n)) => (*n, None), ast::RepetitionKind::Range(ast::RepetitionRange::Bounded(m, n)) => (*m, Some(*n)) };
            let mut res = BTreeSet::new();
            let mut cur: BTreeSet<usize> = [i].into_iter().collect();
            let mut k = 0u32;
            let mut seen: BTreeSet<BTreeSet<usize>> = BTreeSet::new();
            loop {
                if k >= min { res.extend(cur.iter().cloned()); }
                if let Some(m) = max { if k >= m { break; } }
                let nxt: BTreeSet<usize> = cur.iter().flat_map(|&j| ends(&r.ast, cs, j)).collect();
                if nxt.is_empty() { break; }
                k += 1;
                if max.is_none() && k > min && !seen.insert(nxt.clone()) { break; }
                if k as usize > cs.len() + min as usize + 2 { if k >= min { res.extend(nxt.iter().cloned()); } break; }
                cur = nxt;
            }
            res
        }
        _ => panic!("unsupported in prototype"),
    }
}
fn gen(k: usize) -> Vec<Vec<String>> {
    let atoms = ["a", "b", "[ab]", "[^a]", ".", "()", "\\w"];
    let mut memo: Vec<Vec<String>> = vec![vec![], atoms.iter().map(|s| s.to_string()).collect()];
    for s in 2..=k {
        let mut v = vec![];
        for r in memo[s-1].clone() { for op in ["*", "+", "?", "{2}", "{1,2}", "{2,}", "{0}"] { v.push(format!("({}){}", r, op)); } }
        for i in 1..s-1 { let j = s-1-i; if j==0 {continue;} for r in memo[i].clone() { for t in memo[j].clone() { v.push(format!("{}{}", r, t)); v.push(format!("({}|{})", r, t)); } } }
        for r in memo[s-1].clone() { v.push(format!("(|{})", r)); v.push(format!("({}|)", r)); }
        memo.push(v);
    }
    memo
}
fn inputs(alpha: &[char], l: usize) -> Vec<String> {
    let mut v = vec![];
    for len in 0..=l { let n = alpha.len().pow(len as u32); for mut k in 0..n { let mut s = String::new(); for _ in 0..len { s.push(alpha[k % alpha.len()]); k /= alpha.len(); } v.push(s); } }
    v
}

#[derive(Clone, Debug)]
struct P { pat: String, la: Option<(bool, String)> }
fn nullable(a: &Ast) -> bool { ends(a, &[], 0).contains(&0) }
// admissible set at position p: returns None if no candidate, else (idx, set of ends)
fn admissible(pats: &[(Ast, Option<(bool, Ast)>)], cs: &[char], p: usize) -> Option<(usize, BTreeSet<usize>)> {
    let mut best_extent = 0usize; let mut cands: Vec<(usize, usize, usize)> = vec![]; // (idx, end, extent)
    for (idx, (a, la)) in pats.iter().enumerate() {
        for &e in ends(a, cs, p).iter().filter(|&&e| e > p) {
            let (ok, lalen) = match la { None => (true, 0), Some((pos, l)) => { let m = ends(l, cs, e).into_iter().filter(|&j| j > e).max(); match (pos, m) { (true, Some(j)) => (true, j - e), (true, None) => (false, 0), (false, Some(_)) => (false, 0), (false, None) => (true, 0) } } };
            if ok { let ext = (e - p) + lalen; cands.push((idx, e, ext)); if ext > best_extent { best_extent = ext; } }
        }
    }
    if cands.is_empty() { return None; }
    let w: Vec<_> = cands.iter().filter(|c| c.2 == best_extent).collect();
    let i = w.iter().map(|c| c.0).min().unwrap();
    Some((i, w.iter().filter(|c| c.0 == i).map(|c| c.1).collect()))
}
fn main() {
    std::panic::set_hook(Box::new(|_| {}));
    let g = gen(2);
    let small: Vec<String> = g[1].iter().chain(g[2].iter()).cloned().filter(|p| p != "()" ).collect();
    let small: Vec<String> = small.into_iter().filter(|p| !p.contains("(|") && !p.contains("()")).collect();
    let parse = |p: &str| ast::parse::Parser::new().parse(p).unwrap();
    let las: Vec<String> = ["a", "b", "x", "ab", "[ab]", "(b)+", "bx"].iter().map(|s| s.to_string()).collect();
    let mains: Vec<String> = ["a", "b", "ab", "(a)+", "[ab]", "(a)*", "abx", "(ab)?a", "."].iter().map(|s| s.to_string()).collect();
    let _ = small;
    let mut lopts: Vec<Option<(bool, String)>> = vec![None]; for l in &las { lopts.push(Some((true, l.clone()))); lopts.push(Some((false, l.clone()))); }
    let mut ps: Vec<P> = vec![]; for m in &mains { for l in &lopts { ps.push(P { pat: m.clone(), la: l.clone() }); } }
    let ins = inputs(&['a', 'b', 'x'], 5);
    let plain = std::env::args().nth(1).as_deref() == Some("plain");
    let mut sets: Vec<Vec<P>> = vec![];
    let ins = if plain { inputs(&['a', 'b', 'x', 'c'], 4) } else { ins };
    if plain {
        let g4 = gen(4);
        for sz in 1..=4 { for p in &g4[sz] { sets.push(vec![P { pat: p.clone(), la: None }]); } }
        let sm: Vec<String> = g4[1].iter().chain(g4[2].iter()).cloned().collect();
        for p in &sm { for q in &sm { sets.push(vec![P { pat: p.clone(), la: None }, P { pat: q.clone(), la: None }]); } }
    } else {
        sets = ps.iter().map(|p| vec![p.clone()]).collect();
        for p in &ps { for q in &ps { if p.la.is_some() || q.la.is_some() { sets.push(vec![p.clone(), q.clone()]); } } }
    }
    let t = std::time::Instant::now();
    let (mut nscans, mut nbad, mut npanic, mut badsets) = (0usize, 0usize, 0usize, 0usize);
    let mut examples: BTreeMap<String, (usize, Vec<String>)> = BTreeMap::new();
    for set in &sets {
        let asts: Vec<(Ast, Option<(bool, Ast)>)> = set.iter().map(|p| (parse(&p.pat), p.la.as_ref().map(|(b, l)| (*b, parse(l))))).collect();
        let mode = ScannerMode::new("M", set.iter().enumerate().map(|(i, p)| { let x = Pattern::new(p.pat.clone(), i); match &p.la { Some((b, l)) => x.with_lookahead(Lookahead::new(*b, l.clone())), None => x } }), vec![]);
        let sc = ScannerBuilder::new().add_scanner_mode(mode).build_uncached().unwrap();
        let mut setbad = false;
        for input in &ins {
            nscans += 1;
            let cs: Vec<char> = input.chars().collect();
            let got = catch_unwind(std::panic::AssertUnwindSafe(|| sc.find_iter(input).map(|m| (m.token_type(), m.start(), m.end())).collect::<Vec<_>>()));
            let verdict: Option<String> = match &got {
                Err(_) => { npanic += 1; Some("panic".into()) }
                Ok(toks) => { // walk
                    let mut p = 0usize; let mut k = 0usize; let mut v = None;
                    while p < cs.len() {
                        match admissible(&asts, &cs, p) {
                            None => { if k < toks.len() && toks[k].1 == p { v = Some("token where none admissible".to_string()); break; } p += 1; }
                            Some((i, es)) => { if k >= toks.len() || toks[k].1 != p { v = Some("missing token".to_string()); break; }
                                if toks[k].0 != i { v = Some(format!("wrong type (span {})", if es.contains(&toks[k].2) {"admissible"} else {"not admissible"})); break; }
                                if !es.contains(&toks[k].2) { v = Some("right type wrong span".to_string()); break; }
                                p = toks[k].2; k += 1; }
                        }
                    }
                    if v.is_none() && k != toks.len() { v = Some("extra tokens".into()); }
                    v
                }
            };
            if let Some(v) = verdict { nbad += 1; setbad = true; let e = examples.entry(format!("{} pats: {}", set.len(), v)).or_default(); e.0 += 1; if e.1.len() < 4 { e.1.push(format!("{:?} input {:?} got {:?}", set.iter().map(|p| format!("{}{}", p.pat, match &p.la { None => String::new(), Some((true,l)) => format!("(?={})", l), Some((false,l)) => format!("(?!{})", l) })).collect::<Vec<_>>(), input, got)); } }
        }
        if setbad { badsets += 1; }
    }
    println!("sets {} (bad {}) scans {} bad {} panics {} in {:?}", sets.len(), badsets, nscans, nbad, npanic, t.elapsed());
    for (k, (n, ex)) in examples { println!("{} : {}", k, n); for e in ex { println!("    {}", e); } }
}
