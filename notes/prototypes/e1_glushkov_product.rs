use regex_syntax::ast::{self, Ast};
use scnr::*;
use std::collections::{BTreeMap, HashMap, VecDeque};

// ---- reference: Glushkov over a tiny IR ----
#[derive(Clone, Debug)]
enum R { Eps, Atom(Ast), Cat(Box<R>, Box<R>), Alt(Box<R>, Box<R>), Star(Box<R>), Plus(Box<R>), Opt(Box<R>) }
fn cat_all(v: Vec<R>) -> R { v.into_iter().reduce(|a, b| R::Cat(Box::new(a), Box::new(b))).unwrap_or(R::Eps) }
fn to_r(a: &Ast) -> R {
    match a {
        Ast::Empty(_) => R::Eps,
        Ast::Literal(_) | Ast::Dot(_) | Ast::ClassPerl(_) | Ast::ClassBracketed(_) | Ast::ClassUnicode(_) => R::Atom(a.clone()),
        Ast::Group(g) => to_r(&g.ast),
        Ast::Concat(c) => cat_all(c.asts.iter().map(to_r).collect()),
        Ast::Alternation(x) => x.asts.iter().map(to_r).reduce(|a, b| R::Alt(Box::new(a), Box::new(b))).unwrap(),
        Ast::Repetition(r) => { let inner = to_r(&r.ast); match &r.op.kind {
            ast::RepetitionKind::ZeroOrOne => R::Opt(Box::new(inner)), ast::RepetitionKind::ZeroOrMore => R::Star(Box::new(inner)), ast::RepetitionKind::OneOrMore => R::Plus(Box::new(inner)),
            ast::RepetitionKind::Range(ast::RepetitionRange::Exactly(n)) => cat_all((0..*n).map(|_| inner.clone()).collect()),
            ast::RepetitionKind::Range(ast::RepetitionRange::AtLeast(n)) => { let mut v: Vec<R> = (0..*n).map(|_| inner.clone()).collect(); v.push(R::Star(Box::new(inner.clone()))); cat_all(v) }
            ast::RepetitionKind::Range(ast::RepetitionRange::Bounded(m, n)) => { let mut v: Vec<R> = (0..*m).map(|_| inner.clone()).collect(); for _ in *m..*n { v.push(R::Opt(Box::new(inner.clone()))); } cat_all(v) } } }
        _ => panic!("unsupported"),
    }
}
struct Glu { atoms: Vec<Ast>, first: u64, last: u64, follow: Vec<u64>, nullable: bool }
fn glushkov(r: &R) -> Glu {
    fn go(r: &R, atoms: &mut Vec<Ast>, follow: &mut Vec<u64>) -> (bool, u64, u64) {
        match r {
            R::Eps => (true, 0, 0),
            R::Atom(a) => { let i = atoms.len(); assert!(i < 64); atoms.push(a.clone()); follow.push(0); (false, 1 << i, 1 << i) }
            R::Cat(a, b) => { let (na, fa, la) = go(a, atoms, follow); let (nb, fb, lb) = go(b, atoms, follow); for i in 0..64 { if la >> i & 1 == 1 { follow[i] |= fb; } } (na && nb, if na { fa | fb } else { fa }, if nb { la | lb } else { lb }) }
            R::Alt(a, b) => { let (na, fa, la) = go(a, atoms, follow); let (nb, fb, lb) = go(b, atoms, follow); (na || nb, fa | fb, la | lb) }
            R::Star(a) | R::Plus(a) => { let (na, fa, la) = go(a, atoms, follow); for i in 0..64 { if la >> i & 1 == 1 { follow[i] |= fa; } } (na || matches!(r, R::Star(_)), fa, la) }
            R::Opt(a) => { let (_, fa, la) = go(a, atoms, follow); (true, fa, la) }
        }
    }
    let mut atoms = vec![]; let mut follow = vec![];
    let (nullable, first, last) = go(r, &mut atoms, &mut follow);
    Glu { atoms, first, last, follow, nullable }
}
fn atom_has(a: &Ast, c: char) -> bool {
    match a {
        Ast::Literal(l) => l.c == c,
        Ast::Dot(_) => c != '\n' && c != '\r',
        Ast::ClassPerl(p) => (match p.kind { ast::ClassPerlKind::Word => c.is_alphanumeric() || c == '_', ast::ClassPerlKind::Digit => c.is_ascii_digit(), ast::ClassPerlKind::Space => c.is_whitespace() }) != p.negated,
        Ast::ClassBracketed(b) => { fn item(i: &ast::ClassSetItem, c: char) -> bool { match i { ast::ClassSetItem::Literal(l) => l.c == c, ast::ClassSetItem::Range(r) => r.start.c <= c && c <= r.end.c, ast::ClassSetItem::Union(u) => u.items.iter().any(|i| item(i, c)), _ => panic!() } }
            (match &b.kind { ast::ClassSet::Item(i) => item(i, c), _ => panic!() }) != b.negated }
        _ => panic!(),
    }
}
fn gen(k: usize) -> Vec<Vec<String>> {
    let atoms = ["a", "b", "[ab]", "[^a]", ".", "()", "\\w"];
    let mut memo: Vec<Vec<String>> = vec![vec![], atoms.iter().map(|s| s.to_string()).collect()];
    for s in 2..=k {
        let mut v = vec![];
        for r in memo[s-1].clone() { for op in ["*", "+", "?", "{2}", "{1,2}", "{2,}", "{0}"] { v.push(format!("({}){}", r, op)); } }
        for i in 1..s-1 { let j = s-1-i; if j==0 {continue;} for r in memo[i].clone() { for t in memo[j].clone() { v.push(format!("{}{}", r, t)); v.push(format!("({}|{})", r, t)); } } }
        for r in memo[s-1].clone() { v.push(format!("(|{})", r)); v.push(format!("({}|)", r)); }
        memo.push(v);
    }
    memo
}
fn main() {
    let reps = ['a', 'b', 'x', '\n', '€'];
    let g = gen(4);
    let mut sets: Vec<Vec<String>> = vec![];
    for s in 1..=4 { for p in &g[s] { sets.push(vec![p.clone()]); } }
    let g3: Vec<String> = g[1].iter().chain(g[2].iter()).chain(g[3].iter()).cloned().collect();
    let arg = std::env::args().nth(1).unwrap_or_default();
    if arg == "pairs3" { for p in &g3 { for q in &g3 { sets.push(vec![p.clone(), q.clone()]); } } } else { let g2: Vec<String> = g[1].iter().chain(g[2].iter()).cloned().collect(); for p in &g2 { for q in &g2 { sets.push(vec![p.clone(), q.clone()]); } } }
    let t = std::time::Instant::now();
    let (mut nstates, mut ntrans, mut nbad, mut maxstates) = (0usize, 0usize, 0usize, 0usize);
    let mut bad_examples: BTreeMap<&str, (usize, Vec<String>)> = BTreeMap::new();
    for set in &sets {
        let glus: Vec<Glu> = set.iter().map(|p| glushkov(&to_r(&ast::parse::Parser::new().parse(p).unwrap()))).collect();
        let mode = ScannerMode::new("M", set.iter().enumerate().map(|(i, p)| Pattern::new(p.clone(), i)), vec![]);
        let sc = ScannerBuilder::new().add_scanner_mode(mode).build_uncached().unwrap();
        let dump = sc.verif_dump(); let (trans, ends) = &dump[0];
        // class x rep matrix
        let ncls = trans.iter().flatten().map(|(c, _)| *c + 1).max().unwrap_or(0) as usize;
        let cm: Vec<Vec<bool>> = (0..ncls).map(|c| reps.iter().map(|&ch| sc.verif_class_matches(c as u32, ch)).collect()).collect();
        let am: Vec<Vec<Vec<bool>>> = glus.iter().map(|g| g.atoms.iter().map(|a| reps.iter().map(|&ch| atom_has(a, ch)).collect()).collect()).collect();
        // product BFS; ref state: per pattern Option<u64> (None = initial)
        type St = (Vec<u32>, Vec<Option<u64>>);
        let init: St = (vec![0], vec![None; set.len()]);
        let mut seen: HashMap<St, String> = HashMap::new(); seen.insert(init.clone(), String::new());
        let mut q: VecDeque<St> = VecDeque::new(); q.push_back(init);
        let mut witness: Option<String> = None;
        if ends[0].0 { witness = Some("<empty accepted>".into()); }
        'bfs: while let Some(st) = q.pop_front() {
            let w = seen[&st].clone();
            for (bi, &ch) in reps.iter().enumerate() {
                ntrans += 1;
                let mut ni: Vec<u32> = vec![];
                for &s in &st.0 { for &(c, t) in &trans[s as usize] { if cm[c as usize][bi] && !ni.contains(&t) { ni.push(t); } } }
                ni.sort();
                let nr: Vec<Option<u64>> = st.1.iter().enumerate().map(|(pi, s)| { let g = &glus[pi]; let cand = match s { None => g.first, Some(m) => { let mut f = 0u64; for i in 0..g.atoms.len() { if m >> i & 1 == 1 { f |= g.follow[i]; } } f } }; let mut r = 0u64; for i in 0..g.atoms.len() { if cand >> i & 1 == 1 && am[pi][i][bi] { r |= 1 << i; } } Some(r) }).collect();
                let mut acc_i: Vec<u32> = ni.iter().filter(|&&s| ends[s as usize].0).map(|&s| ends[s as usize].1).collect(); acc_i.sort(); acc_i.dedup();
                let acc_r: Vec<u32> = nr.iter().enumerate().filter(|(pi, s)| s.unwrap() & glus[*pi].last != 0).map(|(pi, _)| pi as u32).collect();
                let mut w2 = w.clone(); w2.push(ch);
                if acc_i != acc_r { witness = Some(format!("{:?} impl {:?} ref {:?}", w2, acc_i, acc_r)); break 'bfs; }
                let ns: St = (ni, nr);
                if ns.0.is_empty() && ns.1.iter().all(|s| *s == Some(0)) { continue; }
                if !seen.contains_key(&ns) { seen.insert(ns.clone(), w2); q.push_back(ns); }
            }
        }
        nstates += seen.len(); maxstates = maxstates.max(seen.len());
        if let Some(w) = witness { nbad += 1; let key = if set.iter().any(|p| p.contains("(|") || p.contains("(()|") || p.contains("{0}|")) { "leading-eps-alternative" } else { "OTHER" }; let e = bad_examples.entry(key).or_default(); e.0 += 1; if e.1.len() < 5 { e.1.push(format!("{:?}: {}", set, w)); } }
        let _ = glus.iter().map(|g| g.nullable).count();
    }
    println!("sets {} product states {} (max {}) transitions {} bad sets {} in {:?}", sets.len(), nstates, maxstates, ntrans, nbad, t.elapsed());
    for (k, (n, ex)) in bad_examples { println!("{}: {}", k, n); for e in ex { println!("    {}", e); } }
}
