use regex_syntax::ast::{self, Ast};
use scnr::*;
use std::collections::BTreeMap;
use std::panic::catch_unwind;

#[derive(Debug, Clone, Copy, PartialEq, Eq, PartialOrd, Ord)]
enum Class { SyntaxErr, Unsupported, Supported }

fn known_unicode(u: &ast::ClassUnicode) -> Option<bool> {
    // None = named class; decide by standalone build
    match &u.kind { ast::ClassUnicodeKind::NamedValue{..} => Some(false), _ => None }
}
fn standalone_ok(s: &str) -> bool {
    let m = ScannerMode::new("M", vec![Pattern::new(s.to_string(), 0)], vec![]);
    ScannerBuilder::new().add_scanner_mode(m).build_uncached().is_ok()
}
fn unsupported_in_set(set: &ast::ClassSet) -> bool {
    match set {
        ast::ClassSet::Item(i) => unsupported_in_item(i),
        ast::ClassSet::BinaryOp(b) => unsupported_in_set(&b.lhs) || unsupported_in_set(&b.rhs),
    }
}
fn unsupported_in_item(i: &ast::ClassSetItem) -> bool {
    use ast::ClassSetItem::*;
    match i {
        Unicode(u) => known_unicode(u).map(|k| !k).unwrap_or_else(|| !standalone_ok(&format!("{}", Ast::ClassUnicode(Box::new(u.clone()))))),
        Bracketed(b) => unsupported_in_set(&b.kind),
        Union(u) => u.items.iter().any(unsupported_in_item),
        _ => false,
    }
}
fn unsupported(a: &Ast) -> bool {
    match a {
        Ast::Empty(_) | Ast::Literal(_) | Ast::Dot(_) | Ast::ClassPerl(_) => false,
        Ast::Flags(_) | Ast::Assertion(_) => true,
        Ast::ClassUnicode(u) => known_unicode(u).map(|k| !k).unwrap_or_else(|| !standalone_ok(&format!("{}", a))),
        Ast::ClassBracketed(b) => unsupported_in_set(&b.kind),
        Ast::Repetition(r) => !r.greedy || unsupported(&r.ast),
        Ast::Group(g) => (match &g.kind { ast::GroupKind::NonCapturing(f) => f.items.iter().any(|i| matches!(i.kind, ast::FlagsItemKind::Flag(_)) ) , _ => false }) || unsupported(&g.ast),
        Ast::Alternation(x) => x.asts.iter().any(unsupported),
        Ast::Concat(x) => x.asts.iter().any(unsupported),
    }
}
fn classify(p: &str) -> Class {
    match ast::parse::Parser::new().parse(p) { Err(_) => Class::SyntaxErr, Ok(a) => if unsupported(&a) { Class::Unsupported } else { Class::Supported } }
}
fn main() {
    std::panic::set_hook(Box::new(|_| {}));
    let toks = ["a","b",".","|","(",")","*","+","?","{2}","{1,2}","{,}","[","]","^","$","-","\\b","\\B","\\A","\\z","\\d","\\pL","\\p{Foo}","\\p{sc=Greek}","(?i)","(?:","(?=","*?","&&"];
    let l: usize = std::env::args().nth(1).unwrap().parse().unwrap();
    let mut stats: BTreeMap<(Class, &'static str), usize> = BTreeMap::new();
    let mut bad = vec![];
    let t = std::time::Instant::now();
    let mut total = 0usize;
    for len in 0..=l {
        let n = toks.len().pow(len as u32);
        for mut k in 0..n {
            let mut s = String::new();
            for _ in 0..len { s.push_str(toks[k % toks.len()]); k /= toks.len(); }
            total += 1;
            let c = classify(&s);
            let s2 = s.clone();
            let r = catch_unwind(move || { let m = ScannerMode::new("M", vec![Pattern::new(s2, 0)], vec![]); ScannerBuilder::new().add_scanner_mode(m).build_uncached().is_ok() });
            let got = match r { Ok(true) => "ok", Ok(false) => "err", Err(_) => "panic" };
            *stats.entry((c, got)).or_default() += 1;
            let expect_ok = c == Class::Supported;
            if got == "panic" || (got == "ok") != expect_ok { if bad.len() < 40 { bad.push((s, c, got)); } }
        }
    }
    println!("total {} in {:?}\n{:?}\nBAD {:?}", total, t.elapsed(), stats, bad);
}
