use regex_syntax::ast::{self, Ast};
use scnr::*;
use std::collections::HashMap;
type Bits = Vec<u64>;
const N: usize = 0x110000;
fn empty() -> Bits { vec![0u64; N / 64] }
fn set(b: &mut Bits, c: char) { let i = c as usize; b[i / 64] |= 1 << (i % 64); }
fn scan_bits(all: &str, pat: &str) -> Option<Bits> {
    let s = ScannerBuilder::new().add_scanner_mode(ScannerMode::new("M", vec![Pattern::new(pat.to_string(), 0)], vec![])).build_uncached().ok()?;
    let mut b = empty();
    for m in s.find_iter(all) { let t = &all[m.start()..m.end()]; let mut it = t.chars(); let c = it.next().unwrap(); assert!(it.next().is_none()); set(&mut b, c); }
    Some(b)
}
fn valid_mask() -> Bits { let mut b = empty(); for u in 0..N as u32 { if let Some(c) = char::from_u32(u) { set(&mut b, c); } } b }
fn not(a: &Bits, v: &Bits) -> Bits { a.iter().zip(v).map(|(x, m)| !x & m).collect() }
fn bin(a: &Bits, b: &Bits, f: impl Fn(u64, u64) -> u64) -> Bits { a.iter().zip(b).map(|(x, y)| f(*x, *y)).collect() }
struct Ctx<'a> { all: &'a str, valid: Bits, atoms: HashMap<String, Bits> }
impl Ctx<'_> {
    fn atom(&mut self, key: &str) -> Bits { if let Some(b) = self.atoms.get(key) { return b.clone(); } let b = scan_bits(self.all, key).expect(key); self.atoms.insert(key.to_string(), b.clone()); b }
    fn item(&mut self, i: &ast::ClassSetItem) -> Bits {
        use ast::ClassSetItem::*;
        match i {
            Empty(_) => empty(),
            Literal(l) => if l.c == '.' && l.kind == ast::LiteralKind::Verbatim { let mut b = self.valid.clone(); b[0] &= !(1 << 10) & !(1 << 13); b } else { let mut b = empty(); set(&mut b, l.c); b },
            Range(r) => { let mut b = empty(); for u in r.start.c as u32..=r.end.c as u32 { if let Some(c) = char::from_u32(u) { set(&mut b, c); } } b }
            Perl(p) => { let pos = ast::ClassPerl { negated: false, ..p.clone() }; let b = self.atom(&format!("{}", Ast::ClassPerl(Box::new(pos)))); if p.negated { not(&b, &self.valid.clone()) } else { b } }
            Ascii(a) => { let pos = ast::ClassAscii { negated: false, ..a.clone() }; let txt = format!("[{}]", Ast::ClassBracketed(Box::new(ast::ClassBracketed { span: a.span, negated: false, kind: ast::ClassSet::Item(ast::ClassSetItem::Ascii(pos)) }))); let txt = txt[1..txt.len()-1].to_string(); let b = self.atom(&txt); if a.negated { not(&b, &self.valid.clone()) } else { b } }
            Unicode(u) => { let pos = ast::ClassUnicode { negated: false, ..u.clone() }; let b = self.atom(&format!("{}", Ast::ClassUnicode(Box::new(pos)))); if u.is_negated() { not(&b, &self.valid.clone()) } else { b } }
            Bracketed(b) => self.bracket(b),
            Union(u) => { let mut acc = empty(); for i in &u.items { let x = self.item(i); acc = bin(&acc, &x, |a, b| a | b); } acc }
        }
    }
    fn cset(&mut self, s: &ast::ClassSet) -> Bits { match s { ast::ClassSet::Item(i) => self.item(i), ast::ClassSet::BinaryOp(b) => { let l = self.cset(&b.lhs); let r = self.cset(&b.rhs); match b.kind { ast::ClassSetBinaryOpKind::Intersection => bin(&l, &r, |a, b| a & b), ast::ClassSetBinaryOpKind::Difference => bin(&l, &r, |a, b| a & !b), ast::ClassSetBinaryOpKind::SymmetricDifference => bin(&l, &r, |a, b| a ^ b) } } } }
    fn bracket(&mut self, b: &ast::ClassBracketed) -> Bits { let x = self.cset(&b.kind); if b.negated { let v = self.valid.clone(); not(&x, &v) } else { x } }
}
fn main() {
    let mut all = String::new(); for u in 0..N as u32 { if let Some(c) = char::from_u32(u) { all.push(c); } }
    let mut ctx = Ctx { all: &all, valid: valid_mask(), atoms: HashMap::new() };
    let items = ["a", "\\.", ".", "a-c", "b-é", "\\d", "\\W", "[:alpha:]", "[:^digit:]", "\\p{Lowercase}", "\\PL", "\\s"];
    let mut exprs: Vec<String> = vec![];
    let mut sets: Vec<String> = vec![];
    for i in &items { sets.push(i.to_string()); for j in &items { sets.push(format!("{}{}", i, j)); } }
    for s in &sets { exprs.push(format!("[{}]", s)); exprs.push(format!("[^{}]", s)); }
    let small: Vec<String> = items.iter().map(|s| s.to_string()).collect();
    for x in &small { for y in &small { for op in ["&&", "--", "~~"] { exprs.push(format!("[{}{}{}]", x, op, y)); exprs.push(format!("[^{}{}{}]", x, op, y)); exprs.push(format!("[{}{}[^{}]]", x, op, y)); } exprs.push(format!("[{}[^{}]]", x, y)); exprs.push(format!("[^[{}][^{}]]", x, y)); } }
    let t = std::time::Instant::now();
    let (mut n, mut bad, mut rejected) = (0usize, 0usize, 0usize);
    let mut examples = vec![];
    for e in &exprs {
        let astp = match ast::parse::Parser::new().parse(e) { Ok(a) => a, Err(_) => { rejected += 1; continue; } };
        let b = match &astp { Ast::ClassBracketed(b) => b.clone(), _ => { rejected += 1; continue; } };
        let got = match scan_bits(&all, e) { Some(g) => g, None => { rejected += 1; continue; } };
        let exp = ctx.bracket(&b);
        n += 1;
        if got != exp { bad += 1; if examples.len() < 10 { let d: Vec<char> = (0..N as u32).filter_map(char::from_u32).filter(|c| { let i = *c as usize; (got[i/64] >> (i%64) & 1) != (exp[i/64] >> (i%64) & 1) }).take(5).collect(); examples.push((e.clone(), d)); } }
    }
    println!("exprs {} checked {} rejected/unparsable {} bad {} in {:?}", exprs.len(), n, rejected, bad, t.elapsed());
    println!("{:?}", examples);
    // anchors
    let d = ctx.atom("\\d"); let w = ctx.atom("\\w"); let s = ctx.atom("\\s");
    let ascii = |b: &Bits| -> String { (0u8..128).filter(|&u| b[u as usize / 64] >> (u % 64) & 1 == 1).map(|u| (u as char).escape_default().to_string()).collect() };
    println!("ascii \\d = {}\nascii \\s = {}\nascii \\w = {}", ascii(&d), ascii(&s), ascii(&w));
}
