#!/usr/bin/env bash
# Regression over all seeded changes: applies each seeded/<id>/patch.diff to /repo, runs the quick
# check of the property it targets, reverts. Every line must say "detected".
cd /verif
export VERIF_C17_BIG=0
for d in seeded/*/; do
  id=$(basename $d)
  prop=$(python3 -c "import json;print(json.load(open('$d/meta.json')).get('breaks_property') or '')" 2>/dev/null)
  [ -z "$prop" ] && prop=${id%%[-b-c]*}
  prop=${prop:0:3}
  if ! git -C /repo apply --check /verif/$d/patch.diff 2>/dev/null; then
    if ! (cd /repo && patch -p1 --dry-run --fuzz=3 < /verif/$d/patch.diff >/dev/null 2>&1); then
      echo "$id: patch does not apply to the current tree"; continue
    fi
    (cd /repo && patch -p1 --fuzz=3 < /verif/$d/patch.diff >/dev/null 2>&1)
  else
    git -C /repo apply /verif/$d/patch.diff
  fi
  S=$(date +%s)
  ./check $prop quick > /tmp/regr_$id.out 2>&1; rc=$?
  E=$(date +%s)
  git -C /repo checkout -- . ; git -C /repo clean -fdq scnr 2>/dev/null
  if [ $rc -eq 1 ]; then echo "$id: detected by $prop ($((E-S))s)"; else echo "$id: NOT detected by $prop (rc=$rc, $((E-S))s)"; fi
done
