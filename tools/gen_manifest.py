#!/usr/bin/env python3
"""Generates /verif/MANIFEST.json from the table below (single source of truth for the interface)."""
import json, os, subprocess
here = os.path.dirname(os.path.abspath(__file__))
root = os.path.dirname(here)

def repo_hook_commits():
    try:
        out = subprocess.check_output(["git", "-C", "/repo", "log", "--format=%H %s"], text=True)
        return [l.split()[0] for l in out.splitlines() if " verif hooks:" in " " + l]
    except Exception:
        return []

CHECKS = {
 "C01": dict(engine="E2 scancheck (pubcheck)", cat="exploration", ref="§3.3 E2, §5 C01",
   technique="bounded-exhaustive enumeration of (pattern set, input) pairs, real iterator in lockstep with a reference scanner (AST interpreter over position sets); the all-strings part is delegated to C02/C03",
   text="Every (configuration, input) pair of stated finite families (Sets(k1;k2;k3) x token-type variants, repetition shapes, class pairs, add_patterns) is scanned to exhaustion by the real iterator and compared token by token with the longest-match / first-pattern / skip-one-character rule computed by an independent interpreter. Complete enumeration, simplest first; no sampling.",
   note="Trusted: regex-syntax's parser; named class atoms as opaque tables tabulated through the public API. Inputs are short (<= 5 characters): the quantifier over arbitrary strings is covered by the product exploration of C02/C03, this check covers find_from's bookkeeping and the skip logic."),
 "C02": dict(engine="E1 langcheck (hookcheck)", cat="model_checking", ref="§3.3 E1, §5 C02",
   technique="explicit-state product exploration (compiled automaton dumped from the real Scanner x Glushkov reference automaton) closed over the finite block alphabet of all 1,112,064 scalars; BFS witnesses replayed against the real scanner",
   text="Per pattern set the verdict is for ALL strings: the product of the real compiled automaton and an independently constructed position automaton is closed over the alphabet partition, so a wrong merge or missing edge needing a long witness is found as surely as a short one. The quantifier over pattern sets is bounded-exhaustive (Sets(k1;k2;k3), lookahead automata, repetition shapes, class pairs, a scale family with >256/>512 patterns, classes, states and groups, the repository corpora).",
   note="Trusted: regex-syntax's parser (shared with scnr), the read-only dump hook (validated per run by scanning every BFS witness with the real scanner), named class atoms as opaque tables tabulated through the public API (their algebra is C08's business)."),
 "C03": dict(engine="E1 langcheck (hookcheck)", cat="model_checking", ref="§3.3 E1, §5 C03",
   technique="explicit-state product exploration of every recorded (input, output) pair of Minimizer::minimize over the block alphabet, all strings per pair",
   text="Every automaton that reaches the minimizer while the families of C02 are built is compared with its minimized form by closing the product of the two over the alphabet partition: equal accepted token-type sets in every reachable pair of state sets, start state preserved, no growth. No reference regex is involved, so the verdict is independent of the NFA construction.",
   note="Trusted: the recorder hook (wraps the unchanged minimizer body); class predicates evaluated through the hook on block representatives."),
 "C04": dict(engine="E2 scancheck (pubcheck)", cat="exploration", ref="§3.3 E2, §4.3, §5 C04",
   technique="bounded-exhaustive lockstep of the real iterator against the candidate rule (pattern matches, lookahead holds at the end) on every (mode, input, start offset) of lookahead families",
   text="All ordered modes of 1..2 (thorough 3) patterns with no/positive/negative lookaheads from small menus, ASCII and multi-byte, are scanned on every input up to length 4..5 from every start offset (with_offset). Oracle: every reported token is a candidate (its text is matched by the pattern of the reported type and that pattern's lookahead holds at its end) and a token is reported wherever a candidate exists at the scan position.",
   note="Lookahead patterns are non-nullable (as the property states). A known finding (two patterns of one mode sharing a token type with different lookaheads) is matched by its shape key and reported as KNOWN-FINDING."),
 "C05": dict(engine="E2 scancheck (pubcheck)", cat="exploration", ref="§3.3 E2, §4.3, §5 C05",
   technique="same lockstep as C04; oracle = set of admissible (type, length) results under the trailing-context rule (max extent, then first pattern); panics caught",
   text="On the families of C04 the reported (type, span) must be an admissible choice: maximal own length plus longest positive lookahead, ties to the pattern listed first, type and span from one candidate; no scan may panic.",
   note="When one pattern has several lengths of equal extent the statement does not choose; any of them is accepted."),
 "C06": dict(engine="E3 histcheck (hookcheck)", cat="model_checking", ref="§3.3 E3, §4.4, §5 C06",
   technique="explicit-state BFS to closure over call histories (next / peek_n / set_mode, in one family also set_offset / with_offset) of the real iterator on every mode graph of a bounded family, in lockstep with a mode model; hybrid with a stateless prefix",
   text="For every (mode graph, input) pair the space of call histories is searched to closure: each transition calls the real method on a fresh replay of the shortest history, states are deduplicated by the snapshot of the real iterator fields plus the model state, current_mode() and every returned token are compared with the configured transitions. Histories up to a stated length are additionally expanded without deduplication. Plus scripted checks (Scanner::set_mode before find_iter, reuse after a partial iteration, mode_name), one family built through the cache (configurations that differ only in their transitions), lookahead modes that share token types, and rings of 300 / 65 600 modes started at the u8/u16 borders.",
   note="Trusted: the snapshot hook lists every mutable field (the stateless prefix covers fields it might miss). set_mode to a missing mode is unspecified and never generated."),
 "C07": dict(engine="E2 scancheck + stateless history enumeration (pubcheck)", cat="exploration", ref="§5 C07",
   technique="bounded-exhaustive enumeration: safety invariants on every scan of the C04/C05 families, on a nullable-pattern/nullable-lookahead/zero-pattern family over 1-4 byte characters from every offset, and along every call history up to depth D (next / peek_n(2) / peek_n(usize::MAX) / advance_to / set_offset / set_mode, position queries after every call) followed by a drain through WithPositions; a process killed by a signal (abort, stack overflow) twice in a row is a verdict as well",
   text="Non-empty in-bounds spans on character boundaries, monotone starts, at most one token per character since the last reset, sticky None, no panic (debug assertions on) - evaluated on every element of the stated finite spaces.",
   note="After a backward set_offset the monotonicity and token budget restart at the reset position."),
 "C08": dict(engine="E4 enumcheck (pubcheck)", cat="exploration", ref="§4.2, §5 C08",
   technique="exhaustive enumeration of all 1,112,064 scalar values per class expression of a bounded grammar, through the public API, against the set algebra over opaque atom tables",
   text="Each class expression (unions, negations at every level, &&, --, ~~, nested brackets, every named class scnr documents in several contexts, all classes of the corpora, pairs of classes in one scanner, up to 300 classes in one scanner) is compiled as a scanner and decided on every scalar value; the oracle is the boolean algebra of its items computed word-wise and cross-checked pointwise.",
   note="An unescaped `.` as a class item is the dot set (intended behaviour, README relies on it). Named atoms are opaque inside the algebra (their set is what the atom denotes alone); their tables are anchored separately: the ASCII anchors of \\d \\s \\w from the statement, every documented binary property against regex-syntax's table of that property, \\w / [[:word:]] / \\d / \\s between bounds on which scnr's documentation and UTS #18 agree (scalars assigned in the independent tables' Unicode version, 64 scalars tolerance)."),
 "C09": dict(engine="E3 histcheck (hookcheck)", cat="model_checking", ref="§3.3 E3, §4.4, §5 C09",
   technique="explicit-state BFS to closure over histories (next / set_offset to scanned offsets / set_mode / peek / advance_to / exhaustion) of WithPositions<FindMatches> and bare FindMatches, true line/column oracle on every state",
   text="In every reachable state position(o) is compared for every boundary inside the contiguously scanned prefix, and every delivered MatchExt start/end position is compared with the true line/column (line-break leniency for end positions as the statement allows).",
   note="Only offsets inside the contiguously scanned prefix are specified; forward jumps over unscanned text leave a gap that is not compared."),
 "C10": dict(engine="E3 histcheck (hookcheck)", cat="model_checking", ref="§3.3 E3, §4.4, §5 C10",
   technique="explicit-state BFS to closure over histories with set_offset(every boundary, beyond the end), with peek_n and advance_to(peeked end), against a model whose scan from (offset, mode) does not depend on the past",
   text="After any history followed by set_offset(o) the tokens must be those of a scan from o in the current mode with absolute spans; advance_to(end of a just peeked match) must make the next token the following one. Mode graphs, lookahead modes, multi-byte/newline configurations and gap configurations on inputs up to length 6 (what lies behind a reset point longer than what follows).",
   note="advance_to is only driven with the end of a match peeked in the current state; offsets inside a character are never generated."),
 "C11": dict(engine="E3 histcheck (hookcheck)", cat="model_checking", ref="§3.3 E3, §4.4, §5 C11",
   technique="explicit-state BFS to closure with peek_n(0,1,2,3,|x|+1) enabled in every state; peek result compared with the model's next-n tokens and classification; purity by snapshot comparison",
   text="peek_n must return what the next calls of next() would return, stop only at the end or after a mode-switching token, classify the outcome, and leave the iterator snapshot unchanged; checked at every point of every history of the bounded families (mode graphs, gaps, multi-byte, lookahead modes with resets).",
   note="Corner left open by the statement: exactly n matches found and the n-th triggers a switch - both Matches and MatchesReachedModeSwitch are accepted."),
 "C12": dict(engine="E3m (pubcheck)", cat="model_checking", ref="§5 C12",
   technique="exhaustive enumeration of all interleavings of two per-iterator scripts plus one scanner-level event on one Scanner and on two scanners sharing a cached compilation; differential oracle (same script alone on a fresh uncached scanner); peek-transparency differential on one iterator",
   text="Every schedule (script pair x interleaving x event placement) is executed on the real objects and each iterator's observations must equal those of its script run alone; on a single iterator every script with peeks (peek_n(1|2|100)) must observe what the same script without its peeks observes (tokens, modes, position() of both token ends); a fresh scanner scanning x1 then x2, for all ordered pairs of inputs over {U+0000, a, e-acute, U+10FFFF}, is compared with the reference on both scans.",
   note="Single-threaded interleaving (concurrency is C14). The interleaving and peek parts are differential; the history-independence part uses the reference scanner."),
 "C13": dict(engine="E5 cachecheck (hookcheck)", cat="model_checking", ref="§5 C13",
   technique="explicit-state BFS over cache states (sets of built members of a family of equal/near-identical/unrelated/failing configurations); every build() compared with build_uncached() by dump, mode names and token streams",
   text="From every cache state (reached by clear + builds) every member is built through the cache (twice) and compared with its uncached build by mode names, token streams from every start mode, modes after every token and peek results; every failing member is built after clear / after any one good member and followed by a build of every member; one long history without clear (1 100 distinct configurations, thorough 70 000, with re-builds of early ones at every power of two) covers capacity-dependent behaviour.",
   note="The cache_clear/cache_keys hooks only make cache states reachable and observable in one process. Single-threaded."),
 "C14": dict(engine="E6 loomcheck", cat="model_checking", ref="§3.2 H5, §5 C14",
   technique="loom (DPOR, all schedules, no preemption bound) over the real build()/Scanner::try_from/find_iter/peek_n code through a std-shadowing facade whose locks make try_lock failures and writer-preferring RwLock blocking reachable; Send+Sync by compile probe",
   text="For each of ~210 small thread harness bodies (2 threads x 1-2 ops, 3 threads x 1 op: builds of equal/near-identical/failing configurations through both builders and Scanner::try_from, scans and peeks on two shared Arc<Scanner>, one of them with lookaheads checked alternately within a token, caches pre-filled around typical capacity bounds) loom explores every schedule; every thread must observe the sequential results, no deadlock or panic. `Scanner: Send + Sync` is a type-system fact decided by a compile probe.",
   note="Scheduling points exist only where the code synchronises through std::sync / std::thread (routed to loom); std's Arc reference counts are not scheduling points; unsynchronised accesses through unsafe are invisible to loom. The facade's Mutex adds a probe cell so that try_lock can fail, its RwLock is built on loom's Mutex+Condvar and prefers writers (std documents that a waiting writer may block readers). A free-running stress pass on OS threads (sampling, supporting evidence) runs first; when it already shows a wrong result the loom part is skipped and the violation is reported from it."),
 "C15": dict(engine="E4 enumcheck (pubcheck)", cat="exploration", ref="§5 C15",
   technique="exhaustive enumeration of every token string up to length L over a 30-token regex alphabet, structured planting of constructs in every context x slot, long multi-byte patterns, twin spellings of one Unicode property, border ranges, Unicode class names outside the documented list, nesting depths 50..20 000 of five shapes built in child processes on 2 MiB threads (optimised and dev-profile builds), and the same through the cache; classification oracle from the AST",
   text="Every element of the stated finite spaces is handed to build()/build_uncached() inside catch_unwind with debug assertions on: syntax errors and unsupported constructs anywhere must give Err, the supported fragment must build, nothing may panic.",
   note="In the token-string and planting families a named Unicode class is unsupported iff it does not build when used alone (fixed anchors from the statement are asserted); this circular part is closed by family (g): names outside scnr's documented list must be rejected if Unicode does not know them, and must denote their own property (compared with regex-syntax's Unicode tables over all scalars) if they build. Repetition counts stay small."),
 "C16": dict(engine="E4 enumcheck (pubcheck)", cat="exploration", ref="§5 C16",
   technique="exhaustive enumeration of a finite product of special strings, every string of <= 2 ASCII characters in every text position, boundary numbers, lookahead options and transition lists; three serialization routes read back; independent hand-written JSON in the README layout; behaviour of original vs read-back",
   text="Every configuration of the product round-trips by ==, re-serializes identically, equals an independently written JSON in the README layout in both directions and, if it builds, behaves like its read-back twin; the README JSON block is extracted and exercised; Match/MatchExt/Span/Position round-trip on boundary numbers.",
   note="Configurations are built through the public constructors with sorted transition lists."),
 "C17": dict(engine="E1 langcheck on generated instances (hookcheck)", cat="model_checking", ref="§5 C17",
   technique="fixed instance list built through the public API; each built scanner decided for ALL strings by the explicit-state product of its dumped automaton with the reference automaton, its minimizer pairs compared the same way, the inputs the property names scanned for real",
   text="Instances whose unminimized automaton has 1 100 .. 21 000 states (thresholds other than 2^16), instances that cross 2^16 NFA-level states through empty groups while the deterministic automaton stays small (padded keyword lists, 9 000 dense irregular patterns), large near-identical keyword lists through the cache, and, beyond 2^16 deterministic states, 65 600 patterns `a` with distinct token types (thorough: 65 535 / 65 536 copies, 65 536 distinct literals, 13 200 keywords, a{66000}b). An error from build is accepted; a scanner that builds must tokenize exactly as the longest-match rule prescribes, which the product exploration decides for every string.",
   note="The quick tier needs about 3.5 minutes because building one automaton beyond 2^16 states takes 2.6 minutes in scnr itself (quadratic construction); VERIF_C17_BIG=0 skips that instance (then the quick tier takes about 100 s and crosses 2^16 only at the NFA level). Not a sweep: a 2^16 boundary cannot be scaled down."),
 "C18": dict(engine="E4 enumcheck (hookcheck)", cat="exploration", ref="§5 C18",
   technique="exhaustive enumeration over configuration families; every generated file parsed by a strict DOT-subset parser and compared with the automaton dump; unwritable targets",
   text="File set (one per mode, named from prefix and mode name, incl. dots/spaces/non-ASCII), node set, accepting labels, edge multiset with class ids, one cluster per lookahead with polarity and automaton are compared with the dump; missing folder / regular file / missing parent / a directory in the place of ONE mode's file must give Err, not a panic; every other export goes into the folder as the previous export left it.",
   note="No Graphviz binary in the sandbox: the parser implements DOT's quoting rules. Class text in edge labels is not compared, only the (C#id) suffix. Read-only folders cannot be produced when running as root (reported as skipped)."),
}

NOT_YET = {
}

def main():
    checks = []
    for pid in sorted(CHECKS):
        c = CHECKS[pid]
        checks.append({
            "property_id": pid,
            "quick_cmd": f"./check {pid} quick",
            "thorough_cmd": f"./check {pid} thorough",
            "evidence_file": f"/verif/evidence/{pid}.json",
            "replay_cmd_template": f"./check {pid} quick --replay {{path}}",
            "engine": c["engine"],
            "level_claimed": {"category": c["cat"], "text": c["text"], "design_ref": c["ref"]},
            "level_note": c["note"],
            "technique": c["technique"],
        })
    props = [json.loads(l)["id"] for l in open(os.path.join(root, "properties.jsonl"))]
    na = [{"property_id": p, "reason": NOT_YET.get(p, "check not built yet in this session (work in progress, see DESIGN.md §7); not claimed until its machinery is committed")} for p in props if p not in CHECKS]
    m = {
        "version": 1,
        "setup_cmd": "./setup.sh",
        "hooks": {
            "guard": "cargo features `verif` (data hooks) and `verif_loom` (implies verif; routes std::sync/std::thread to loom) of the scnr package",
            "enable": "harness crates depend on scnr by path with features = [\"verif\"] (hookcheck) or [\"verif_loom\"] (loomcheck); pubcheck uses no feature",
            "baseline_off_cmd": "cd /repo && (cargo nextest run --workspace --no-fail-fast --test-threads 8 --offline || cargo test --workspace --no-fail-fast --offline)",
            "source_commits": repo_hook_commits(),
            "add_only": True,
        },
        "engines": [
            {"name": "E1 langcheck", "path": "harness/hookcheck/src/e1.rs", "serves_properties": ["C02", "C03", "C17"], "kind_free_text": "explicit-state product exploration over the block alphabet"},
            {"name": "E2 scancheck", "path": "harness/pubcheck/src/e2.rs", "serves_properties": ["C01", "C04", "C05", "C07"], "kind_free_text": "bounded-exhaustive lockstep of the real iterator against the reference scanner"},
            {"name": "E3 histcheck", "path": "harness/hookcheck/src/e3.rs", "serves_properties": ["C06", "C09", "C10", "C11"], "kind_free_text": "explicit-state BFS over call histories of the real iterator, lockstep with the iterator model"},
            {"name": "E3m / stateless histories", "path": "harness/pubcheck/src/c12.rs", "serves_properties": ["C12", "C07"], "kind_free_text": "all interleavings / all histories up to depth D through the public API"},
            {"name": "E4 enumcheck", "path": "harness/pubcheck/src", "serves_properties": ["C08", "C15", "C16", "C18"], "kind_free_text": "plain exhaustive enumerators"},
            {"name": "E5 cachecheck", "path": "harness/hookcheck/src/c13.rs", "serves_properties": ["C13"], "kind_free_text": "BFS over cache states"},
            {"name": "E6 loomcheck", "path": "harness/loomcheck/src/main.rs", "serves_properties": ["C14"], "kind_free_text": "loom DPOR over the real build()/find_iter code"},
            {"name": "refsem", "path": "harness/refsem/src", "serves_properties": [], "kind_free_text": "reference semantics (AST interpreter, Glushkov automaton, token rule, iterator model); never calls scnr"},
        ],
        "checks": checks,
        "not_applicable": na,
        "notes": "All checks are exhaustive inside their stated bounds; VERIF_SEED never selects random cases (it only rotates which additional enumerated block is appended in thorough tiers). Exit 2 = machinery failure, never a verdict.",
    }
    json.dump(m, open(os.path.join(root, "MANIFEST.json"), "w"), indent=1)
    print("MANIFEST.json written:", len(checks), "checks,", len(na), "not claimed")

main()
