#!/usr/bin/env python3
"""Generates /verif/MANIFEST.json from the table below (single source of truth for the interface)."""
import json, os, subprocess
here = os.path.dirname(os.path.abspath(__file__))
root = os.path.dirname(here)

def repo_hook_commits():
    try:
        out = subprocess.check_output(["git", "-C", "/repo", "log", "--format=%H %s"], text=True)
        return [l.split()[0] for l in out.splitlines() if " verif hooks:" in " " + l]
    except Exception:
        return []

CHECKS = {
 "C02": dict(engine="E1 langcheck (hookcheck)", cat="model_checking", ref="§3.3 E1, §5 C02",
   technique="explicit-state product exploration (compiled automaton dumped from the real Scanner x Glushkov reference automaton) closed over the finite block alphabet of all 1,112,064 scalars; BFS witnesses replayed against the real scanner",
   text="Per pattern set the verdict is for ALL strings: the product of the real compiled automaton and an independently constructed position automaton is closed over the alphabet partition, so a wrong merge or missing edge needing a long witness is found as surely as a short one. The quantifier over pattern sets is bounded-exhaustive (Sets(k1;k2;k3), lookahead automata, a scale family, the repository corpora).",
   note="Trusted: regex-syntax's parser (shared with scnr), the read-only dump hook (validated per run by scanning every BFS witness with the real scanner), named class atoms as opaque tables tabulated through the public API (their algebra is C08's business)."),
 "C03": dict(engine="E1 langcheck (hookcheck)", cat="model_checking", ref="§3.3 E1, §5 C03",
   technique="explicit-state product exploration of every recorded (input, output) pair of Minimizer::minimize over the block alphabet, all strings per pair",
   text="Every automaton that reaches the minimizer while the families of C02 are built is compared with its minimized form by closing the product of the two over the alphabet partition: equal accepted token-type sets in every reachable pair of state sets, start state preserved, no growth. No reference regex is involved, so the verdict is independent of the NFA construction.",
   note="Trusted: the recorder hook (wraps the unchanged minimizer body); class predicates evaluated through the hook on block representatives."),
}

NOT_YET = {
}

def main():
    checks = []
    for pid in sorted(CHECKS):
        c = CHECKS[pid]
        checks.append({
            "property_id": pid,
            "quick_cmd": f"./check {pid} quick",
            "thorough_cmd": f"./check {pid} thorough",
            "evidence_file": f"/verif/evidence/{pid}.json",
            "replay_cmd_template": f"./check {pid} quick --replay {{path}}",
            "engine": c["engine"],
            "level_claimed": {"category": c["cat"], "text": c["text"], "design_ref": c["ref"]},
            "level_note": c["note"],
            "technique": c["technique"],
        })
    props = [json.loads(l)["id"] for l in open(os.path.join(root, "properties.jsonl"))]
    na = [{"property_id": p, "reason": NOT_YET.get(p, "check not built yet in this session (work in progress, see DESIGN.md §7); not claimed until its machinery is committed")} for p in props if p not in CHECKS]
    m = {
        "version": 1,
        "setup_cmd": "./setup.sh",
        "hooks": {
            "guard": "cargo features `verif` (data hooks) and `verif_loom` (implies verif; routes std::sync/std::thread to loom) of the scnr package",
            "enable": "harness crates depend on scnr by path with features = [\"verif\"] (hookcheck) or [\"verif_loom\"] (loomcheck); pubcheck uses no feature",
            "baseline_off_cmd": "cd /repo && (cargo nextest run --workspace --no-fail-fast --test-threads 8 --offline || cargo test --workspace --no-fail-fast --offline)",
            "source_commits": repo_hook_commits(),
            "add_only": True,
        },
        "engines": [
            {"name": "E1 langcheck", "path": "harness/hookcheck/src/e1.rs", "serves_properties": ["C02", "C03", "C17"], "kind_free_text": "explicit-state product exploration over the block alphabet"},
        ],
        "checks": checks,
        "not_applicable": na,
        "notes": "All checks are exhaustive inside their stated bounds; VERIF_SEED never selects random cases (it only rotates which additional enumerated block is appended in thorough tiers). Exit 2 = machinery failure, never a verdict.",
    }
    json.dump(m, open(os.path.join(root, "MANIFEST.json"), "w"), indent=1)
    print("MANIFEST.json written:", len(checks), "checks,", len(na), "not claimed")

main()
