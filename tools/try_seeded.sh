#!/usr/bin/env bash
# tools/try_seeded.sh <src-dir with patch.diff demo.rs meta.json> <seeded-id> <worktree> <PROP> [<PROP>...]
# 1. confirms in the scratch worktree: clean tree -> demo passes; patch applied -> repository suite passes, demo fails
# 2. applies the patch to /repo, runs the quick checks of the given properties, reverts /repo
# 3. records everything under /verif/seeded/<id>/
set -u
SRC="$1"; ID="$2"; WT="$3"; shift 3
PROPS="$@"
OUT=/verif/seeded/$ID
mkdir -p "$OUT"
# the check phase works on what the confirm phase stored (the source directory may be gone or reused)
if [ "${PHASE:-both}" != check ]; then
  cp "$SRC/patch.diff" "$SRC/demo.rs" "$OUT/"
  cp "$SRC/meta.json" "$OUT/agent_meta.json"
fi
export CARGO_NET_OFFLINE=true
# PHASE=confirm: only the confirmation in the scratch worktree (can run in parallel for several
# mutants); PHASE=check: only the checks against /repo (needs the confirm phase's record);
# unset: both
PHASE="${PHASE:-both}"
if [ "$PHASE" != check ]; then
cd "$WT" || exit 2
git checkout -q -- . ; rm -f scnr/tests/demo.rs
cp "$OUT/demo.rs" scnr/tests/demo.rs
CLEAN_DEMO=$(cargo test --offline -p scnr --test demo 2>&1 | grep -E "^test result" | head -1)
git apply "$OUT/patch.diff" || { echo "patch does not apply in worktree"; exit 2; }
cargo test --workspace --no-fail-fast --offline > /tmp/seeded_$ID.log 2>&1
SUITE=$(grep -E "^test result|Running|Doc-tests" /tmp/seeded_$ID.log | paste -sd' ' | sed 's/target[^ ]*//g')
MUT_DEMO=$(cargo test --offline -p scnr --test demo 2>&1 | grep -E "^test result" | head -1)
# suite minus the demo
OTHER_FAIL=$(grep -E "^test .* FAILED$" /tmp/seeded_$ID.log | grep -v "^test demo" | wc -l)
FAILED_NAMES=$(grep -E "^test .* FAILED$" /tmp/seeded_$ID.log | paste -sd';')
git checkout -q -- . ; rm -f scnr/tests/demo.rs
echo "clean demo : $CLEAN_DEMO"
echo "mutant demo: $MUT_DEMO"
echo "failed tests with mutant: $FAILED_NAMES"
printf '%s\n%s\n%s\n' "$CLEAN_DEMO" "$MUT_DEMO" "$FAILED_NAMES" > "$OUT/confirm.txt"
[ "$PHASE" = confirm ] && exit 0
else
CLEAN_DEMO=$(sed -n 1p "$OUT/confirm.txt"); MUT_DEMO=$(sed -n 2p "$OUT/confirm.txt"); FAILED_NAMES=$(sed -n 3p "$OUT/confirm.txt")
fi
# run the checks against /repo with the patch
cd /verif
git -C /repo apply "$OUT/patch.diff" || { echo "patch does not apply to /repo"; exit 2; }
RES=""
for P in $PROPS; do
  START=$(date +%s)
  ./check $P quick > /tmp/seeded_${ID}_$P.out 2>&1
  RC=$?
  END=$(date +%s)
  V=$(grep -c "^VIOLATION" /tmp/seeded_${ID}_$P.out)
  FIRST=$(grep -A1 "^VIOLATION" /tmp/seeded_${ID}_$P.out | sed -n 2p | cut -c1-300)
  echo "check $P: rc=$RC violations_lines=$V ($((END-START))s) $FIRST"
  RES="$RES{\"property\":\"$P\",\"exit\":$RC,\"violation_lines\":$V,\"seconds\":$((END-START))},"
done
git -C /repo checkout -- .
python3 - "$OUT" "$CLEAN_DEMO" "$MUT_DEMO" "$FAILED_NAMES" "[${RES%,}]" <<'PY'
import json,sys
out,clean,mut,failed,res=sys.argv[1:6]
agent=json.load(open(out+'/agent_meta.json'))
meta={"breaks_property":agent.get("property"),"summary":agent.get("summary"),"needs_to_manifest":agent.get("needs_to_manifest"),
 "confirmed_by_me":{"clean_tree_demo":clean,"mutant_demo":mut,"failed_tests_with_mutant":failed,"command":"cargo test --workspace --no-fail-fast --offline (scratch worktree), then cargo test --test demo"},
 "checks_run_against_it":json.loads(res),"agent_verified":agent.get("verified")}
json.dump(meta,open(out+'/meta.json','w'),indent=1)
PY
rm -f "$OUT/agent_meta.json" "$OUT/confirm.txt"
