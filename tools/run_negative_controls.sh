#!/usr/bin/env bash
# Applies every benign refactor of negative_controls/ to /repo, runs all quick checks, reverts.
# No check may print VIOLATION (exit 1) on any of them.
cd /verif
export VERIF_C17_BIG=0
for d in negative_controls/*/; do
  n=$(basename $d)
  git -C /repo apply /verif/$d/patch.diff || { echo "$n: patch does not apply"; continue; }
  RES=""
  for p in C01 C02 C03 C04 C05 C06 C07 C08 C09 C10 C11 C12 C13 C14 C15 C16 C17 C18; do
    ./check $p quick > /tmp/neg_${n}_$p.out 2>&1; rc=$?
    [ $rc -ne 0 ] && RES="$RES $p:rc=$rc"
  done
  git -C /repo checkout -- .
  echo "$n: ${RES:-all 18 quick checks exit 0}"
  echo "${RES:-all 18 quick checks exit 0}" > $d/result.txt
done
