#!/usr/bin/env python3
"""Validates an evidence file against the schema (copy kept in tools/)."""
import json, os, sys
here = os.path.dirname(os.path.abspath(__file__))
schema = json.load(open(os.path.join(here, "EVIDENCE.schema.json")))
doc = json.load(open(sys.argv[1]))
try:
    import jsonschema
except ImportError:
    # minimal structural check when jsonschema is not importable
    for k in schema["required"]:
        if k not in doc:
            print("missing key", k); sys.exit(1)
    sys.exit(0)
try:
    jsonschema.validate(doc, schema)
except jsonschema.ValidationError as e:
    print("evidence invalid:", e.message); sys.exit(1)
