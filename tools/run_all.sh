#!/usr/bin/env bash
# tools/run_all.sh [quick|thorough]: runs every check of the manifest in /verif against /repo and prints one line each.
cd /verif
TIER=${1:-quick}
for p in C01 C02 C03 C04 C05 C06 C07 C08 C09 C10 C11 C12 C13 C14 C15 C16 C17 C18; do
  S=$(date +%s)
  ./check $p $TIER > /tmp/runall_$p.out 2>&1; rc=$?
  E=$(date +%s)
  echo "$p rc=$rc $((E-S))s $(grep -c '^VIOLATION' /tmp/runall_$p.out) violation lines, $(grep -c '^KNOWN-FINDING' /tmp/runall_$p.out) known-finding lines"
done
