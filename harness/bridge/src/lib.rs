//! Glue between plain configuration descriptions, scnr's public API and the reference model.
//! Uses scnr's *public* API only.

use refsem::model::{ModeSpec, PatSpec};
use refsem::sem::{all_scalars, AtomTables, CharSet, Regex};
use scnr::{Lookahead, Pattern, Scanner, ScannerBuilder, ScannerMode};
use serde_json::{json, Value};
use std::panic::{catch_unwind, AssertUnwindSafe};
use std::sync::OnceLock;

#[derive(Clone, Debug, PartialEq, Eq, Hash, PartialOrd, Ord)]
pub struct CPat {
    pub pat: String,
    pub tt: usize,
    pub la: Option<(bool, String)>,
}

impl CPat {
    pub fn new(pat: &str, tt: usize) -> CPat {
        CPat { pat: pat.to_string(), tt, la: None }
    }
    pub fn with_la(mut self, positive: bool, la: &str) -> CPat {
        self.la = Some((positive, la.to_string()));
        self
    }
    pub fn show(&self) -> String {
        match &self.la {
            None => format!("{}=>{}", self.pat, self.tt),
            Some((true, l)) => format!("{}(?={})=>{}", self.pat, l, self.tt),
            Some((false, l)) => format!("{}(?!{})=>{}", self.pat, l, self.tt),
        }
    }
}

#[derive(Clone, Debug, PartialEq, Eq, Hash, PartialOrd, Ord)]
pub struct CMode {
    pub name: String,
    pub pats: Vec<CPat>,
    pub transitions: Vec<(usize, usize)>,
}

#[derive(Clone, Debug, PartialEq, Eq, Hash, PartialOrd, Ord)]
pub struct Cfg {
    pub modes: Vec<CMode>,
}

impl Cfg {
    pub fn single(pats: Vec<CPat>) -> Cfg {
        Cfg { modes: vec![CMode { name: "M".into(), pats, transitions: vec![] }] }
    }

    pub fn to_scnr(&self) -> Vec<ScannerMode> {
        self.modes
            .iter()
            .map(|m| {
                ScannerMode::new(
                    &m.name,
                    m.pats.iter().map(|p| {
                        let x = Pattern::new(p.pat.clone(), p.tt);
                        match &p.la {
                            Some((b, l)) => x.with_lookahead(Lookahead::new(*b, l.clone())),
                            None => x,
                        }
                    }),
                    m.transitions.clone(),
                )
            })
            .collect()
    }

    pub fn to_spec(&self) -> Result<Vec<ModeSpec>, String> {
        self.modes
            .iter()
            .map(|m| {
                Ok(ModeSpec {
                    name: m.name.clone(),
                    patterns: m
                        .pats
                        .iter()
                        .map(|p| {
                            Ok(PatSpec {
                                regex: Regex::parse(&p.pat)?,
                                token_type: p.tt,
                                la: match &p.la {
                                    None => None,
                                    Some((b, l)) => Some((*b, Regex::parse(l)?)),
                                },
                            })
                        })
                        .collect::<Result<_, String>>()?,
                    transitions: m.transitions.clone(),
                })
            })
            .collect()
    }

    pub fn build_uncached(&self) -> Result<Scanner, String> {
        trace_unit(|| self.to_json().to_string());
        ScannerBuilder::new().add_scanner_modes(&self.to_scnr()).build_uncached().map_err(|e| e.to_string())
    }

    pub fn build_cached(&self) -> Result<Scanner, String> {
        trace_unit(|| self.to_json().to_string());
        ScannerBuilder::new().add_scanner_modes(&self.to_scnr()).build().map_err(|e| e.to_string())
    }

    pub fn to_json(&self) -> Value {
        json!(self
            .modes
            .iter()
            .map(|m| json!({
                "name": m.name,
                "patterns": m.pats.iter().map(|p| json!({
                    "pattern": p.pat, "token_type": p.tt,
                    "lookahead": p.la.as_ref().map(|(b, l)| json!({"is_positive": b, "pattern": l}))
                })).collect::<Vec<_>>(),
                "transitions": m.transitions,
            }))
            .collect::<Vec<_>>())
    }

    pub fn show(&self) -> String {
        self.modes
            .iter()
            .map(|m| format!("{}[{}]{:?}", m.name, m.pats.iter().map(|p| p.show()).collect::<Vec<_>>().join(" , "), m.transitions))
            .collect::<Vec<_>>()
            .join(" ; ")
    }

    pub fn has_lookahead(&self) -> bool {
        self.modes.iter().any(|m| m.pats.iter().any(|p| p.la.is_some()))
    }

    pub fn atom_keys(&self) -> Vec<String> {
        let mut keys = vec![];
        for m in &self.modes {
            for p in &m.pats {
                if let Ok(a) = refsem::sem::parse_ast(&p.pat) {
                    refsem::sem::collect_atom_keys(&a, &mut keys);
                }
                if let Some((_, l)) = &p.la {
                    if let Ok(a) = refsem::sem::parse_ast(l) {
                        refsem::sem::collect_atom_keys(&a, &mut keys);
                    }
                }
            }
        }
        keys.sort();
        keys.dedup();
        keys
    }
}

/// Silences the default panic hook (panics of the code under test are caught and reported as
/// violations, not printed thousands of times).
pub fn quiet_panics() {
    std::panic::set_hook(Box::new(|_| {}));
}

/// Crash location. A process killed by a signal (abort of a non-unwinding panic, memory fault,
/// stack overflow inside the code under test) cannot report what it was doing. `./check` then runs
/// the binary a second time with VERIF_CRASH_TRACE=<dir>; in that run every thread records the
/// configuration it builds next in `<dir>/<thread id>` (one small file per thread, rewritten in
/// place), so that the configurations in flight at the moment of the crash are known.
pub fn trace_unit(desc: impl FnOnce() -> String) {
    use std::io::{Seek, Write};
    static DIR: OnceLock<Option<std::path::PathBuf>> = OnceLock::new();
    thread_local! { static FILE: std::cell::RefCell<Option<std::fs::File>> = const { std::cell::RefCell::new(None) }; }
    let Some(dir) = DIR.get_or_init(|| std::env::var_os("VERIF_CRASH_TRACE").map(std::path::PathBuf::from)) else { return };
    FILE.with(|f| {
        let mut f = f.borrow_mut();
        if f.is_none() {
            *f = std::fs::File::create(dir.join(format!("{:?}", std::thread::current().id()).replace(['(', ')'], "_"))).ok();
        }
        if let Some(file) = f.as_mut() {
            let d = desc();
            let _ = file.seek(std::io::SeekFrom::Start(0));
            let _ = file.write_all(d.as_bytes());
            let _ = file.set_len(d.len() as u64);
        }
    });
}

pub fn catch<T>(f: impl FnOnce() -> T) -> Result<T, String> {
    catch_unwind(AssertUnwindSafe(f)).map_err(|e| {
        if let Some(s) = e.downcast_ref::<&str>() {
            s.to_string()
        } else if let Some(s) = e.downcast_ref::<String>() {
            s.clone()
        } else {
            "panic".to_string()
        }
    })
}

/// The string that contains every Unicode scalar value exactly once, in ascending order.
pub fn all_scalars_string() -> &'static str {
    static S: OnceLock<String> = OnceLock::new();
    S.get_or_init(|| all_scalars().collect())
}

/// Membership table of a one-character pattern, obtained through the public API: the pattern is
/// compiled alone and run over the string of all scalars; the one-character tokens are its members.
pub fn tabulate_pattern(pattern: &str) -> Result<CharSet, String> {
    trace_unit(|| json!({"pattern tabulated over all scalar values": pattern}).to_string());
    let sc = ScannerBuilder::new()
        .add_scanner_mode(ScannerMode::new("T", vec![Pattern::new(pattern.to_string(), 0)], vec![]))
        .build_uncached()
        .map_err(|e| e.to_string())?;
    let s = all_scalars_string();
    let mut set = CharSet::empty();
    let r = catch(|| {
        for m in sc.find_iter(s) {
            let text = &s[m.start()..m.end()];
            let mut it = text.chars();
            let c = it.next().ok_or("empty token")?;
            if it.next().is_some() {
                return Err(format!("token {:?} of a one-character pattern {:?} has more than one character", text, pattern));
            }
            set.insert(c);
        }
        Ok(())
    });
    match r {
        Ok(Ok(())) => Ok(set),
        Ok(Err(e)) => Err(e),
        Err(p) => Err(format!("panic while tabulating {pattern:?}: {p}")),
    }
}

/// Tabulates the named atoms `keys` (each used alone).
pub fn tabulate_atoms(keys: &[String], tables: &mut AtomTables) -> Result<(), String> {
    for k in keys {
        if !tables.tables.contains_key(k) {
            tables.tables.insert(k.clone(), tabulate_pattern(k)?);
        }
    }
    Ok(())
}

pub type Tok = (usize, usize, usize);

/// (token type, start, end) of a match; every other accessor of the value must describe the same
/// byte range (`span`, `range`, `len`, `is_empty`, conversions of `Span`). A disagreement panics
/// inside the caller's `catch`, i.e. it is reported like any other failure of the call.
pub fn tok(m: &scnr::Match) -> Tok {
    let (s, e) = (m.start(), m.end());
    let sp = m.span();
    let r: std::ops::Range<usize> = sp.into();
    if sp.start != s || sp.end != e || m.range() != (s..e) || r != (s..e) || sp.range() != (s..e) || m.len() != e.wrapping_sub(s) || sp.len() != m.len() || m.is_empty() != (s == e) || sp.is_empty() != (s == e) || scnr::Span::from(s..e) != sp {
        panic!("accessors of one Match disagree: start()={s} end()={e} span()={sp:?} range()={:?} len()={} is_empty()={}", m.range(), m.len(), m.is_empty());
    }
    (m.token_type(), s, e)
}

/// The same for a match with positions.
pub fn tok_ext(m: &scnr::MatchExt) -> Tok {
    let (s, e) = (m.start(), m.end());
    let sp = m.span();
    if sp.start != s || sp.end != e || m.range() != (s..e) || m.len() != e.wrapping_sub(s) || m.is_empty() != (s == e) {
        panic!("accessors of one MatchExt disagree: start()={s} end()={e} span()={sp:?} range()={:?} len()={} is_empty()={}", m.range(), m.len(), m.is_empty());
    }
    (m.token_type(), s, e)
}

/// Runs the iterator to exhaustion.
pub fn scan_all(sc: &Scanner, input: &str) -> Result<Vec<Tok>, String> {
    catch(|| sc.find_iter(input).map(|m| tok(&m)).collect())
}

pub fn repo_root() -> std::path::PathBuf {
    std::path::PathBuf::from(std::env::var("VERIF_REPO").unwrap_or_else(|_| "/repo".to_string()))
}

impl Cfg {
    /// Reads a configuration in the JSON layout of scnr's fixtures (`Vec<ScannerMode>`), by hand
    /// (not through scnr's serde implementation, which is itself under test in C16).
    pub fn from_json(v: &Value) -> Result<Cfg, String> {
        let mut modes = vec![];
        for m in v.as_array().ok_or("not an array")? {
            let mut pats = vec![];
            for p in m["patterns"].as_array().ok_or("patterns")? {
                let la = match p.get("lookahead") {
                    None | Some(Value::Null) => None,
                    Some(l) => Some((l["is_positive"].as_bool().ok_or("is_positive")?, l["pattern"].as_str().ok_or("la pattern")?.to_string())),
                };
                pats.push(CPat { pat: p["pattern"].as_str().ok_or("pattern")?.to_string(), tt: p["token_type"].as_u64().ok_or("token_type")? as usize, la });
            }
            let mut transitions = vec![];
            for t in m["transitions"].as_array().ok_or("transitions")? {
                transitions.push((t[0].as_u64().ok_or("t0")? as usize, t[1].as_u64().ok_or("t1")? as usize));
            }
            modes.push(CMode { name: m["name"].as_str().ok_or("name")?.to_string(), pats, transitions });
        }
        Ok(Cfg { modes })
    }

    pub fn from_json_file(path: &std::path::Path) -> Result<Cfg, String> {
        let text = std::fs::read_to_string(path).map_err(|e| format!("{}: {e}", path.display()))?;
        Cfg::from_json(&serde_json::from_str(&text).map_err(|e| e.to_string())?)
    }
}

/// The repository's corpora: `(name, configuration, input file if any)`.
pub fn corpora(include_veryl: bool) -> Vec<(String, Cfg, Option<String>)> {
    let data = repo_root().join("scnr/tests/data");
    let mut names: Vec<String> = std::fs::read_dir(&data)
        .map(|d| d.filter_map(|e| e.ok()).map(|e| e.file_name().to_string_lossy().to_string()).filter(|n| n.ends_with(".json") && !n.ends_with("_tokens.json")).collect())
        .unwrap_or_default();
    names.sort();
    let mut out = vec![];
    for n in names {
        if let Ok(cfg) = Cfg::from_json_file(&data.join(&n)) {
            let input = std::fs::read_to_string(data.join(n.replace(".json", ".input"))).ok();
            out.push((n.replace(".json", ""), cfg, input));
        }
    }
    if include_veryl {
        let b = repo_root().join("scnr/benches");
        if let Ok(cfg) = Cfg::from_json_file(&b.join("veryl_modes.json")) {
            let input = std::fs::read_to_string(b.join("veryl_input.veryl")).ok();
            out.push(("veryl".to_string(), cfg, input));
        }
    }
    out
}
