//! C14: building and scanning are thread-safe. loom explores all schedules of small thread
//! harnesses over the real `build()` / `find_iter` code (scnr compiled with feature `verif_loom`,
//! which routes std::sync / std::thread to loom); `Scanner: Send + Sync` is decided by a compile
//! probe.

use loom::thread;
use refsem::evidence::{machinery, parse_args, Run, Samples, Tier, ViolAcc, Violation};
use scnr::{Lookahead, Pattern, PeekResult, Scanner, ScannerBuilder, ScannerMode};
use serde_json::{json, Map};
use std::collections::BTreeSet;
use std::sync::atomic::{AtomicUsize, Ordering};
use std::sync::{Arc, Mutex};

#[derive(Clone, Copy, Debug, PartialEq, Eq, PartialOrd, Ord)]
enum Op {
    BuildA,
    BuildA2,
    BuildAPrime,
    BuildBad,
    /// another valid configuration, unrelated to A
    BuildB,
    ScanShared,
    ScanShared2,
    PeekShared,
    /// scans with the shared scanner L: one mode with two lookahead patterns whose candidates
    /// alternate within one token, plus a third lookahead in a second mode
    ScanL,
    ScanL2,
    PeekL,
    /// `Scanner::try_from(modes of A)`: the construction path beside the builders
    TryFromA,
    /// `ScannerBuilder::new().add_patterns(..).build()`: the simple builder (shares the cache)
    SimpleBuild,
    /// deeply nested patterns (130 groups), outside the cache lock: `Scanner::try_from` and
    /// `build_uncached` of two different configurations
    TryFromDeep,
    UncachedDeep2,
}

fn modes_a() -> Vec<ScannerMode> {
    vec![
        ScannerMode::new("INITIAL", vec![Pattern::new("a".into(), 0).with_lookahead(Lookahead::new(true, "b".into())), Pattern::new("b".into(), 1), Pattern::new("a+".into(), 2), Pattern::new("\\p{Uppercase}+".into(), 3), Pattern::new("\\PL".into(), 4)], vec![(1, 1)]),
        ScannerMode::new("SECOND", vec![Pattern::new("b+".into(), 0), Pattern::new("a".into(), 1), Pattern::new("\\pL".into(), 5), Pattern::new("[^\\pL]".into(), 6)], vec![(1, 0)]),
    ]
}

fn modes_a_prime() -> Vec<ScannerMode> {
    // differs from A only in the polarity of the lookahead
    let mut m = modes_a();
    m[0] = ScannerMode::new("INITIAL", vec![Pattern::new("a".into(), 0).with_lookahead(Lookahead::new(false, "b".into())), Pattern::new("b".into(), 1), Pattern::new("a+".into(), 2), Pattern::new("\\p{Uppercase}+".into(), 3), Pattern::new("\\PL".into(), 4)], vec![(1, 1)]);
    m
}

fn modes_b() -> Vec<ScannerMode> {
    vec![ScannerMode::new("OTHER", vec![Pattern::new("[ab]+".into(), 3), Pattern::new("x".into(), 1)], vec![])]
}

fn modes_l() -> Vec<ScannerMode> {
    let la = |p: &str, tt: usize, pos: bool, l: &str| Pattern::new(p.into(), tt).with_lookahead(Lookahead::new(pos, l.into()));
    vec![
        ScannerMode::new("L", vec![la("[ab]*a", 0, false, "!"), la("[ab]*b", 1, false, "\\?"), Pattern::new("[!?]".into(), 2), la("x", 3, true, "[ab]+!")], vec![(3, 1)]),
        ScannerMode::new("M", vec![la("a", 0, true, "b"), la("a", 1, false, "b"), Pattern::new("b".into(), 2), Pattern::new("!".into(), 3)], vec![(3, 0)]),
    ]
}

const INPUT_L: &str = "abab!ba?xab!ab!";
const INPUT_L2: &str = "ba?ab";

fn scan_l(sc: &Scanner, input: &str) -> Vec<(usize, usize, usize)> {
    sc.find_iter(input).map(|m| (m.token_type(), m.start(), m.end())).collect()
}

fn peek_l(sc: &Scanner) -> Vec<(usize, usize, usize)> {
    let mut it = sc.find_iter(INPUT_L);
    let mut v = vec![];
    if let PeekResult::Matches(m) | PeekResult::MatchesReachedEnd(m) = it.peek_n(2) {
        v.extend(m.iter().map(|m| (m.token_type(), m.start(), m.end())));
    }
    v.extend(it.map(|m| (m.token_type(), m.start(), m.end())));
    v
}

fn modes_deep(inner: &str, tt: usize) -> Vec<ScannerMode> {
    let p = format!("{}{inner}{}", "(".repeat(130), ")".repeat(130));
    vec![ScannerMode::new("DEEP", vec![Pattern::new(p, tt), Pattern::new("[ab1]".into(), tt + 1)], vec![])]
}

fn modes_bad() -> Vec<ScannerMode> {
    vec![ScannerMode::new("INITIAL", vec![Pattern::new("a".into(), 0), Pattern::new("(?i)b".into(), 1)], vec![])]
}

// both inputs contain characters no pattern matches (x, é, ü) in both modes
const INPUT: &str = "xabÉé1b xBba";
const INPUT2: &str = "ü1Éxab";

type Obs = Result<Vec<(usize, usize, usize)>, String>;

fn scan(sc: &Scanner) -> Vec<(usize, usize, usize)> {
    sc.find_iter(INPUT).map(|m| (m.token_type(), m.start(), m.end())).collect()
}

fn scan2(sc: &Scanner) -> Vec<(usize, usize, usize)> {
    sc.find_iter(INPUT2).map(|m| (m.token_type(), m.start(), m.end())).collect()
}

fn peek(sc: &Scanner) -> Vec<(usize, usize, usize)> {
    let mut it = sc.find_iter(INPUT);
    let mut v = vec![];
    let _ = it.next();
    match it.peek_n(3) {
        PeekResult::Matches(m) | PeekResult::MatchesReachedEnd(m) => v.extend(m.iter().map(|m| (m.token_type(), m.start(), m.end()))),
        PeekResult::MatchesReachedModeSwitch((m, t)) => {
            v.extend(m.iter().map(|m| (m.token_type(), m.start(), m.end())));
            v.push((usize::MAX, t, 0));
        }
        PeekResult::NotFound => {}
    }
    v.extend(it.map(|m| (m.token_type(), m.start(), m.end())));
    v
}

fn run_op(op: Op, shared: &Scanner, shared_l: Option<&Scanner>) -> Obs {
    match op {
        Op::TryFromDeep => Scanner::try_from(modes_deep("a+", 7)).map(|s| scan(&s)).map_err(|_| "err".to_string()),
        Op::UncachedDeep2 => ScannerBuilder::new().add_scanner_modes(&modes_deep("b|É", 3)).build_uncached().map(|s| scan(&s)).map_err(|_| "err".to_string()),
        Op::TryFromA => Scanner::try_from(modes_a()).map(|s| scan(&s)).map_err(|_| "err".to_string()),
        Op::SimpleBuild => ScannerBuilder::new().add_patterns(["a", "b+", "[^ab]"]).build().map(|s| scan(&s)).map_err(|_| "err".to_string()),
        Op::ScanL => Ok(scan_l(shared_l.expect("L is built when a script uses it"), INPUT_L)),
        Op::ScanL2 => Ok(scan_l(shared_l.expect("L is built when a script uses it"), INPUT_L2)),
        Op::PeekL => Ok(peek_l(shared_l.expect("L is built when a script uses it"))),
        Op::BuildA | Op::BuildA2 => ScannerBuilder::new().add_scanner_modes(&modes_a()).build().map(|s| scan(&s)).map_err(|_| "err".to_string()),
        Op::BuildAPrime => ScannerBuilder::new().add_scanner_modes(&modes_a_prime()).build().map(|s| scan(&s)).map_err(|_| "err".to_string()),
        Op::BuildBad => ScannerBuilder::new().add_scanner_modes(&modes_bad()).build().map(|s| scan(&s)).map_err(|_| "err".to_string()),
        Op::BuildB => ScannerBuilder::new().add_scanner_modes(&modes_b()).build().map(|s| scan(&s)).map_err(|_| "err".to_string()),
        Op::ScanShared => Ok(scan(shared)),
        Op::ScanShared2 => Ok(scan2(shared)),
        Op::PeekShared => Ok(peek(shared)),
    }
}

/// Sequential expectation, computed without the cache and outside any model.
fn expected(op: Op) -> Obs {
    let unc = |m: Vec<ScannerMode>| ScannerBuilder::new().add_scanner_modes(&m).build_uncached();
    match op {
        Op::BuildA | Op::BuildA2 => unc(modes_a()).map(|s| scan(&s)).map_err(|_| "err".to_string()),
        Op::BuildAPrime => unc(modes_a_prime()).map(|s| scan(&s)).map_err(|_| "err".to_string()),
        Op::BuildBad => unc(modes_bad()).map(|s| scan(&s)).map_err(|_| "err".to_string()),
        Op::BuildB => unc(modes_b()).map(|s| scan(&s)).map_err(|_| "err".to_string()),
        Op::ScanShared => Ok(scan(&unc(modes_a()).unwrap())),
        Op::ScanShared2 => Ok(scan2(&unc(modes_a()).unwrap())),
        Op::PeekShared => Ok(peek(&unc(modes_a()).unwrap())),
        Op::TryFromDeep => unc(modes_deep("a+", 7)).map(|s| scan(&s)).map_err(|_| "err".to_string()),
        Op::UncachedDeep2 => unc(modes_deep("b|É", 3)).map(|s| scan(&s)).map_err(|_| "err".to_string()),
        Op::TryFromA => unc(modes_a()).map(|s| scan(&s)).map_err(|_| "err".to_string()),
        Op::SimpleBuild => unc(vec![ScannerMode::new("INITIAL", vec![Pattern::new("a".into(), 0), Pattern::new("b+".into(), 1), Pattern::new("[^ab]".into(), 2)], vec![])]).map(|s| scan(&s)).map_err(|_| "err".to_string()),
        Op::ScanL => Ok(scan_l(&unc(modes_l()).unwrap(), INPUT_L)),
        Op::ScanL2 => Ok(scan_l(&unc(modes_l()).unwrap(), INPUT_L2)),
        Op::PeekL => Ok(peek_l(&unc(modes_l()).unwrap())),
    }
}

static TICKET: AtomicUsize = AtomicUsize::new(0);
/// the fill of `explore` comes after the shared scanners were built (second capacity sweep)
static FILL_AFTER_SHARED: std::sync::atomic::AtomicBool = std::sync::atomic::AtomicBool::new(false);

struct ForceSend<T>(T);
unsafe impl<T> Send for ForceSend<T> {}

/// loom reports "deadlock; threads = [..]" when the model closure returns while a thread is still
/// blocked. If that happens after every thread of the harness was joined (ALL_JOINED is set at the
/// end of the model closure), every *call* has returned and only a thread the library itself started
/// is left: a helper thread that outlives the calls is not a deadlock in the sense of the property.
/// Such a body cannot be explored with loom (which demands that all threads end); it is counted,
/// not reported.
static ALL_JOINED: std::sync::atomic::AtomicBool = std::sync::atomic::AtomicBool::new(false);

fn only_library_threads_blocked(msg: &str) -> bool {
    msg.starts_with("deadlock") && ALL_JOINED.load(Ordering::Relaxed)
}

struct HarnessResult {
    executions: usize,
    outcomes: usize,
    violation: Option<String>,
    capped: bool,
    /// a thread started by the library outlives the calls: loom cannot explore this body
    library_thread_left: bool,
}

/// Explores all schedules of one harness body: `scripts[t]` is run by thread t.
fn explore(scripts: &[Vec<Op>], bound: Option<usize>, max_branches: usize, budget_s: f64, prefill: usize) -> HarnessResult {
    let started = std::time::Instant::now();
    let execs = Arc::new(AtomicUsize::new(0));
    let outcomes: Arc<Mutex<BTreeSet<String>>> = Arc::new(Mutex::new(BTreeSet::new()));
    let problem: Arc<Mutex<Option<String>>> = Arc::new(Mutex::new(None));
    // The sequential expectation is computed inside a single-threaded loom model as well: code
    // under test that touches a synchronisation primitive cannot run outside a model.
    let want: Vec<Vec<Obs>> = {
        let out: Arc<Mutex<Vec<Vec<Obs>>>> = Arc::new(Mutex::new(vec![]));
        let (o, sc) = (out.clone(), scripts.to_vec());
        let r = std::panic::catch_unwind(std::panic::AssertUnwindSafe(|| {
            // (loom's default limit of 1 000 synchronisation steps per execution is far too low for
            // code that counts or locks inside loops; the limit used for the explored bodies applies)
            let mut seq = loom::model::Builder::new();
            seq.max_branches = 2_000_000;
            seq.check(move || {
                // (a spawned thread: loom's coroutines have small stacks by default, deeply nested
                // patterns recurse)
                let (o, sc) = (o.clone(), sc.clone());
                ALL_JOINED.store(false, Ordering::Relaxed);
                thread::Builder::new()
                    .stack_size(1 << 23)
                    .spawn(move || {
                        *o.lock().unwrap() = sc.iter().map(|s| s.iter().map(|op| expected(*op)).collect()).collect();
                    })
                    .unwrap()
                    .join()
                    .unwrap();
                ALL_JOINED.store(true, Ordering::Relaxed);
            })
        }));
        if let Err(e) = r {
            let msg = if let Some(s) = e.downcast_ref::<&str>() { s.to_string() } else if let Some(s) = e.downcast_ref::<String>() { s.clone() } else { "?".into() };
            if only_library_threads_blocked(&msg) {
                return HarnessResult { executions: 1, outcomes: 1, violation: None, capped: false, library_thread_left: true };
            }
            return HarnessResult { executions: 1, outcomes: 1, violation: Some(format!("the sequential (single-threaded) run of the operations panicked: {msg}")), capped: false, library_thread_left: false };
        }
        let v = out.lock().unwrap().clone();
        v
    };
    let want_keys: usize = {
        let mut k = BTreeSet::new();
        for s in scripts {
            for o in s {
                match o {
                    Op::BuildA | Op::BuildA2 => {
                        k.insert("A");
                    }
                    Op::BuildAPrime => {
                        k.insert("A'");
                    }
                    Op::BuildB => {
                        k.insert("B");
                    }
                    _ => {}
                }
            }
        }
        k.len() + 1 + prefill // + the shared scanner's configuration (A), built first
    };
    let want_keys = if scripts.iter().flatten().any(|o| matches!(o, Op::BuildA | Op::BuildA2)) { want_keys - 1 } else { want_keys };
    let uses_l = scripts.iter().flatten().any(|o| matches!(o, Op::ScanL | Op::ScanL2 | Op::PeekL));
    let want_keys = want_keys + usize::from(uses_l);
    let scripts_owned: Vec<Vec<Op>> = scripts.to_vec();
    let key_mismatch = Arc::new(AtomicUsize::new(0));
    let (e2, o2, p2, k2) = (execs.clone(), outcomes.clone(), problem.clone(), key_mismatch.clone());
    let mut b = loom::model::Builder::new();
    b.preemption_bound = bound;
    b.max_branches = max_branches;
    b.max_duration = Some(std::time::Duration::from_secs_f64(budget_s));
    let r = std::panic::catch_unwind(std::panic::AssertUnwindSafe(|| {
        b.check(move || {
            e2.fetch_add(1, Ordering::Relaxed);
            TICKET.store(0, Ordering::Relaxed);
            ALL_JOINED.store(false, Ordering::Relaxed);
            // the shared scanner comes from the cache as well (so that scans race with builds of the same entry)
            // a cache that already holds `prefill` other configurations (bounded caches, eviction)
            let fill = || {
                for k in 0..prefill {
                    let m = vec![ScannerMode::new("FILL", vec![Pattern::new(format!("f{k}"), k)], vec![])];
                    let _ = ScannerBuilder::new().add_scanner_modes(&m).build();
                }
            };
            let fill_after = FILL_AFTER_SHARED.load(Ordering::Relaxed);
            if !fill_after {
                fill();
            }
            let shared = Arc::new(ScannerBuilder::new().add_scanner_modes(&modes_a()).build().expect("A builds"));
            let shared_l = if uses_l { Some(Arc::new(ScannerBuilder::new().add_scanner_modes(&modes_l()).build().expect("L builds"))) } else { None };
            if fill_after {
                // everything the threads are going to look up (A's configuration, patterns, classes)
                // is older than `prefill` other entries of whatever the library keeps process-wide
                fill();
            }
            let hs: Vec<_> = scripts_owned
                .iter()
                .cloned()
                .map(|script| {
                    let shared = shared.clone();
                    let shared_l = shared_l.clone();
                    // loom's Builder::spawn demands `Send` (its plain `spawn` does not). Whether a
                    // Scanner may cross threads is decided by the compile probe, not by whether this
                    // harness compiles, so the captured values are wrapped.
                    let captured = ForceSend((script, shared, shared_l));
                    thread::Builder::new().stack_size(1 << 23).spawn(move || {
                        let captured = captured;
                        let (script, shared, shared_l) = captured.0;
                        let mut obs = vec![];
                        for op in script {
                            let r = run_op(op, &shared, shared_l.as_deref());
                            // completion order of the operations (a real atomic, invisible to loom:
                            // it adds no scheduling point): the observed orders show that the
                            // threads really interleave
                            let ticket = TICKET.fetch_add(1, Ordering::Relaxed);
                            obs.push((r, ticket));
                        }
                        obs
                    })
                    .expect("spawn")
                })
                .collect();
            let results: Vec<Vec<(Obs, usize)>> = hs.into_iter().map(|h| h.join().expect("thread panicked")).collect();
            let final_keys = scnr::verif::cache_keys().len();
            for (t, (got, want_t)) in results.iter().zip(want.iter()).enumerate() {
                for (k, ((g, _), w)) in got.iter().zip(want_t.iter()).enumerate() {
                    if g != w {
                        *p2.lock().unwrap() = Some(format!("thread {t} op #{k}: observed {g:?}, the same call made sequentially yields {w:?}"));
                    }
                }
            }
            // informational only: a cache may evict or canonicalise and still be correct
            if final_keys != want_keys {
                k2.fetch_add(1, Ordering::Relaxed);
            }
            o2.lock().unwrap().insert(format!("{:?}", results.iter().map(|r| r.iter().map(|x| x.1).collect::<Vec<_>>()).collect::<Vec<_>>()));
            ALL_JOINED.store(true, Ordering::Relaxed);
        });
    }));
    let mut violation = problem.lock().unwrap().clone();
    let mut capped = started.elapsed().as_secs_f64() >= budget_s;
    let mut library_thread_left = false;
    if let Err(e) = r {
        let msg = if let Some(s) = e.downcast_ref::<&str>() { s.to_string() } else if let Some(s) = e.downcast_ref::<String>() { s.clone() } else { "panic".into() };
        if msg.contains("exceeded maximum number of branches") || msg.contains("Model exeeded maximum") {
            // loom's limit is per execution: ONE schedule made more than `max_branches`
            // synchronisation steps. No operation of these harnesses needs that many; a thread is
            // spinning (a wait loop that never ends under this schedule).
            if violation.is_none() {
                violation = Some(format!("one schedule did not end within {max_branches} synchronisation steps: a thread spins without making progress (livelock); loom: {msg}"));
            }
        } else if only_library_threads_blocked(&msg) {
            library_thread_left = true;
        } else if violation.is_none() {
            violation = Some(format!("loom reported: {msg}"));
        }
    }
    let n_outcomes = outcomes.lock().unwrap().len();
    HarnessResult { executions: execs.load(Ordering::Relaxed), outcomes: n_outcomes, violation, capped, library_thread_left }
}

fn sendsync_probe(viol: &mut ViolAcc) -> serde_json::Value {
    let root = refsem::evidence::verif_root();
    let out = std::process::Command::new("cargo")
        .args(["build", "--offline", "--release", "--manifest-path"])
        .arg(root.join("harness/sendsync_probe/Cargo.toml"))
        .env("CARGO_TARGET_DIR", root.join("harness/target/probe"))
        .env("CARGO_NET_OFFLINE", "true")
        .output();
    match out {
        Err(e) => machinery(&format!("cannot run cargo for the Send/Sync probe: {e}")),
        Ok(o) => {
            let err = String::from_utf8_lossy(&o.stderr).to_string();
            if o.status.success() {
                json!({"probe": "fn f<T: Send + Sync>() {} f::<scnr::Scanner>() compiles", "result": "Scanner: Send + Sync"})
            } else if err.contains("E0277") && (err.contains("cannot be sent between threads safely") || err.contains("cannot be shared between threads safely")) {
                let first: String = err.lines().filter(|l| l.contains("cannot be") || l.contains("within `")).take(4).collect::<Vec<_>>().join(" | ");
                viol.add("", || Violation { key: String::new(), summary: format!("scnr::Scanner is not Send + Sync: {first}"), replay: json!({"probe": "harness/sendsync_probe", "command": "cargo build --offline --manifest-path harness/sendsync_probe/Cargo.toml", "rustc": first}) });
                json!({"result": "Scanner is NOT Send + Sync"})
            } else {
                machinery(&format!("the Send/Sync probe does not compile for another reason:\n{}", err.lines().filter(|l| l.starts_with("error")).take(5).collect::<Vec<_>>().join("\n")))
            }
        }
    }
}

fn main() {
    let (prop, tier, _) = parse_args();
    if prop != "C14" {
        machinery("loomcheck only knows C14");
    }
    if std::env::var("VERIF_C14_DEBUG").is_err() {
        std::panic::set_hook(Box::new(|_| {}));
    }
    let mut run = Run::new("C14", tier);
    let mut viol = ViolAcc::default();
    let probe = sendsync_probe(&mut viol);

    let ops = [Op::BuildA, Op::BuildAPrime, Op::BuildBad, Op::ScanShared, Op::ScanShared2, Op::PeekShared];
    let mut bodies: Vec<Vec<Vec<Op>>> = vec![];
    // two threads, one op each (all ordered pairs incl. equal ops)
    for a in ops {
        for b in ops {
            bodies.push(vec![vec![a], vec![b]]);
        }
    }
    // two threads, two ops each: a build followed by anything, against the same
    let seconds = [Op::BuildA2, Op::BuildAPrime, Op::ScanShared];
    for a in [Op::BuildA, Op::BuildAPrime, Op::BuildBad] {
        for a2 in seconds {
            for b in [Op::BuildA, Op::BuildAPrime, Op::BuildBad] {
                for b2 in seconds {
                    bodies.push(vec![vec![a, a2], vec![b, b2]]);
                }
            }
        }
    }
    // three threads, one op each (multisets: order of threads does not matter)
    for (i, a) in ops.iter().enumerate() {
        for (j, b) in ops.iter().enumerate().skip(i) {
            for c in ops.iter().skip(j) {
                bodies.push(vec![vec![*a], vec![*b], vec![*c]]);
            }
        }
    }
    // scans that race on whatever a scanner shares between its iterators (two lookaheads checked
    // alternately within one token, a third one in another mode), alone and against builds
    let l_ops = [Op::ScanL, Op::ScanL2, Op::PeekL];
    for (i, a) in l_ops.iter().enumerate() {
        for b in l_ops.iter().skip(i) {
            bodies.push(vec![vec![*a], vec![*b]]);
            bodies.push(vec![vec![*a], vec![*b], vec![Op::ScanL]]);
        }
        bodies.push(vec![vec![*a], vec![Op::BuildA]]);
        bodies.push(vec![vec![*a, Op::ScanL2], vec![Op::ScanL, *a]]);
        bodies.push(vec![vec![*a], vec![Op::ScanShared]]);
    }
    // the other construction paths (Scanner::try_from, the simple builder) against the builders,
    // against each other and against scans
    for a in [Op::TryFromA, Op::SimpleBuild] {
        for b in [Op::BuildA, Op::BuildAPrime, Op::BuildBad, Op::ScanShared, Op::TryFromA, Op::SimpleBuild] {
            bodies.push(vec![vec![a], vec![b]]);
        }
        bodies.push(vec![vec![a], vec![Op::BuildAPrime], vec![Op::BuildBad]]);
        bodies.push(vec![vec![a], vec![a], vec![Op::BuildB]]);
        bodies.push(vec![vec![a, a], vec![Op::BuildAPrime, Op::BuildB]]);
    }
    // builds that do not go through the cache lock at all (deeply nested patterns, different
    // configurations): whatever they share is shared without that lock
    for body in [
        vec![vec![Op::TryFromDeep], vec![Op::UncachedDeep2]],
        vec![vec![Op::TryFromDeep], vec![Op::TryFromDeep]],
        vec![vec![Op::TryFromDeep, Op::UncachedDeep2], vec![Op::UncachedDeep2, Op::TryFromDeep]],
        vec![vec![Op::TryFromDeep], vec![Op::UncachedDeep2], vec![Op::BuildA]],
    ] {
        bodies.push(body);
    }
    if let Ok(f) = std::env::var("VERIF_C14_BODY") {
        // debugging aid: only the bodies whose Debug text contains the given string
        bodies.retain(|b| format!("{b:?}").contains(&f));
    }
    let debug = std::env::var("VERIF_C14_DEBUG").is_ok();
    if tier == Tier::Thorough {
        // three threads, two ops each, builds only
        for a in [Op::BuildA, Op::BuildAPrime] {
            for b in [Op::BuildA, Op::BuildBad] {
                bodies.push(vec![vec![a, Op::BuildA2], vec![b, Op::BuildAPrime], vec![Op::BuildA, Op::ScanShared]]);
            }
        }
    }
    let budget = if tier == Tier::Quick { 4.0 } else { 60.0 };
    let mut total_exec = 0usize;
    let mut total_outcomes = 0usize;
    let mut capped = 0usize;
    let mut bounded = 0usize;
    let mut samples = Samples::new(6);
    let mut multi_outcome_bodies = 0usize;
    let mut explored_bodies = 0usize;
    let mut unexplorable = 0usize;
    // Supporting pass (sampling, not the deciding step): the same kinds of operations free-running on
    // OS threads, including uncached builds and drops, whose only shared state are reference counts of
    // std's Arc/Weak - operations loom cannot interleave here.
    let stress = {
        let root = refsem::evidence::verif_root();
        // run with a watchdog: free-running threads that deadlock would hang the check
        let out = (|| -> std::io::Result<std::process::Output> {
            let mut child = std::process::Command::new(root.join("harness/target/release/pubcheck")).args(["c14-stress", tier.name()]).stdout(std::process::Stdio::piped()).stderr(std::process::Stdio::null()).spawn()?;
            let limit = std::time::Duration::from_secs(if tier == Tier::Quick { 120 } else { 600 });
            let started = std::time::Instant::now();
            loop {
                if child.try_wait()?.is_some() {
                    return child.wait_with_output();
                }
                if started.elapsed() > limit {
                    let _ = child.kill();
                    let _ = child.wait();
                    return Err(std::io::Error::new(std::io::ErrorKind::TimedOut, "watchdog"));
                }
                std::thread::sleep(std::time::Duration::from_millis(50));
            }
        })();
        match out {
            Err(e) if e.kind() == std::io::ErrorKind::TimedOut => {
                viol.add("", || Violation { key: String::new(), summary: "free-running threads: the stress pass (normally about 2 s) did not finish within the watchdog limit - the threads are blocked (deadlock or livelock)".into(), replay: json!({"pass": "free-running stress (8 OS threads, cached and uncached builds incl. failing ones, scans, drops)", "how": "harness/pubcheck c14-stress"}) });
                json!({"outcome": "killed by the watchdog"})
            }
            Err(e) => json!({"skipped": format!("pubcheck is not built: {e}")}),
            Ok(o) => match serde_json::from_slice::<serde_json::Value>(&o.stdout) {
                Ok(v) => {
                    for p in v["problems"].as_array().cloned().unwrap_or_default() {
                        let p = p.as_str().unwrap_or("").to_string();
                        viol.add("", || Violation { key: String::new(), summary: format!("free-running threads: {p}"), replay: json!({"pass": "free-running stress (8 OS threads, cached and uncached builds of 5 configurations, scans, drops)", "problem": p, "how": "harness/pubcheck c14-stress"}) });
                    }
                    v
                }
                Err(_) => {
                    // the stress binary died (abort / stack overflow): that is itself a finding
                    if !o.status.success() {
                        viol.add("", || Violation { key: String::new(), summary: format!("free-running threads: the stress process ended with {:?}", o.status), replay: json!({"pass": "free-running stress", "status": format!("{:?}", o.status)}) });
                    }
                    json!({"status": format!("{:?}", o.status)})
                }
            },
        }
    };
    // It runs first: a library whose synchronisation was changed can make the schedule spaces
    // below explode (every body then runs into its cap, which takes many minutes); what the
    // free-running threads already show is reported at once and the exhaustive part is skipped.
    let stress_failed = viol.total() > 0;
    for body in &bodies {
        if stress_failed {
            break;
        }
        // all schedules (no preemption bound); a body whose schedule space does not close within
        // the budget is explored again completely under preemption bound 2
        let mut r = explore(body, None, 2_000_000, budget, 0);
        if r.capped && r.violation.is_none() {
            let r2 = explore(body, Some(2), 2_000_000, budget * 2.0, 0);
            bounded += 1;
            r = HarnessResult { executions: r.executions + r2.executions, outcomes: r.outcomes.max(r2.outcomes), violation: r2.violation, capped: r2.capped, library_thread_left: r.library_thread_left || r2.library_thread_left };
        }
        explored_bodies += 1;
        if debug {
            eprintln!("body {body:?}: executions {} outcomes {} capped {} violation {:?}", r.executions, r.outcomes, r.capped, r.violation);
        }
        total_exec += r.executions;
        total_outcomes += r.outcomes;
        if r.outcomes > 1 {
            multi_outcome_bodies += 1;
        }
        if r.capped {
            capped += 1;
        }
        if r.library_thread_left {
            unexplorable += 1;
        }
        if let Some(v) = r.violation {
            viol.add("", || Violation { key: String::new(), summary: format!("threads {body:?}: {v}"), replay: json!({"threads": format!("{body:?}"), "shared_scanner": "built through the cache before the threads start", "inputs": [INPUT, INPUT2], "problem": v, "how": "loom::model over scnr built with feature verif_loom; every thread runs its ops in order"}) });
        }
        if samples.items.len() < 6 && r.executions > 50 {
            samples.push(|| json!({"threads": format!("{body:?}"), "executions": r.executions, "distinct_completion_orders": r.outcomes}));
        }
        if run.elapsed() > if tier == Tier::Quick { 400.0 } else { 3000.0 } || viol.total() > 20 {
            break;
        }
    }
    // the same races on a cache that is already well filled (bounds such as 16, 128, 256, 1000,
    // 1024 are typical for a bounded cache): builds of distinct new configurations and of a failing one
    let mut prefilled = vec![];
    for prefill in [130usize, 1030] {
        if stress_failed {
            break;
        }
        for body in [vec![vec![Op::BuildAPrime], vec![Op::BuildBad]], vec![vec![Op::BuildAPrime, Op::BuildA2], vec![Op::BuildAPrime]], vec![vec![Op::BuildAPrime], vec![Op::ScanShared], vec![Op::BuildA]]] {
            if prefill > 200 && tier == Tier::Quick && body.len() == 3 {
                continue;
            }
            let r = explore(&body, None, 2_000_000, budget * 4.0, prefill);
            total_exec += r.executions;
            total_outcomes += r.outcomes;
            if r.capped {
                capped += 1;
            }
            prefilled.push(json!({"prefill": prefill, "threads": format!("{body:?}"), "executions": r.executions, "capped": r.capped}));
            if let Some(v) = r.violation {
                viol.add("", || Violation { key: String::new(), summary: format!("cache pre-filled with {prefill} other configurations, threads {body:?}: {v}"), replay: json!({"prefill": prefill, "threads": format!("{body:?}"), "problem": v, "how": "build `prefill` distinct one-pattern configurations through the cache, then run the threads; loom::model over scnr built with feature verif_loom"}) });
            }
        }
    }
    // capacity sweep: two threads miss with two distinct new configurations while the cache holds
    // exactly C-4 .. C+1 other entries, for every typical bound C of a bounded cache
    let bounds: &[usize] = if tier == Tier::Quick { &[8, 16, 32, 64, 100, 128, 256] } else { &[2, 4, 8, 10, 16, 20, 32, 50, 64, 100, 128, 200, 250, 256, 500, 512, 1000, 1024] };
    let mut fills: Vec<usize> = bounds.iter().flat_map(|c| (c.saturating_sub(4)..=c + 1)).collect();
    fills.sort();
    fills.dedup();
    let mut sweep_exec = 0usize;
    for &prefill in &fills {
        if stress_failed {
            break;
        }
        let body = vec![vec![Op::BuildAPrime], vec![Op::BuildB]];
        let r = explore(&body, None, 2_000_000, budget * 4.0, prefill);
        total_exec += r.executions;
        sweep_exec += r.executions;
        if r.capped {
            capped += 1;
        }
        if let Some(v) = r.violation {
            viol.add("", || Violation { key: String::new(), summary: format!("cache pre-filled with {prefill} other configurations, threads {body:?}: {v}"), replay: json!({"prefill": prefill, "threads": format!("{body:?}"), "problem": v, "how": "build `prefill` distinct one-pattern configurations through the cache, then two threads build two distinct new configurations; loom::model over scnr built with feature verif_loom"}) });
            break;
        }
    }
    prefilled.push(json!({"capacity_sweep": {"typical_bounds": bounds, "prefill_values": fills.len(), "threads": "[[BuildAPrime], [BuildB]]", "executions": sweep_exec}}));
    // second sweep: the entries the threads look up are the OLDEST ones. A is built first, then F
    // other one-pattern configurations (every F from C-16 to C+1 for the typical bounds C: a ring or
    // LRU structure of capacity C is about to overwrite A's entries), then one thread re-creates A
    // outside the cache lock (Scanner::try_from) or through it (build) while another thread
    // introduces new patterns outside the cache lock
    {
        let bounds2: &[usize] = if tier == Tier::Quick { &[64, 128, 256] } else { &[16, 32, 64, 100, 128, 256, 512, 1000, 1024] };
        let mut fills2: Vec<usize> = bounds2.iter().flat_map(|c| (c.saturating_sub(16)..=c + 1)).collect();
        fills2.sort();
        fills2.dedup();
        let mut sweep2_exec = 0usize;
        FILL_AFTER_SHARED.store(true, Ordering::Relaxed);
        'sweep2: for &prefill in &fills2 {
            if stress_failed {
                break;
            }
            for body in [vec![vec![Op::TryFromA], vec![Op::TryFromDeep]], vec![vec![Op::BuildA], vec![Op::UncachedDeep2]]] {
                // all schedules with at most two preemptions first (closes in any case), then all
                let mut r = explore(&body, Some(2), 2_000_000, budget, prefill);
                total_exec += r.executions;
                sweep2_exec += r.executions;
                if r.violation.is_none() {
                    r = explore(&body, None, 2_000_000, budget, prefill);
                    total_exec += r.executions;
                    sweep2_exec += r.executions;
                }
                if r.capped {
                    capped += 1;
                }
                if let Some(v) = r.violation {
                    viol.add("", || Violation { key: String::new(), summary: format!("A built, then {prefill} other configurations, then threads {body:?}: {v}"), replay: json!({"fill_after_the_shared_scanner": prefill, "threads": format!("{body:?}"), "problem": v, "how": "build A through the cache, then `fill` distinct one-pattern configurations through the cache, then run the threads; loom::model over scnr built with feature verif_loom"}) });
                    break 'sweep2;
                }
            }
        }
        FILL_AFTER_SHARED.store(false, Ordering::Relaxed);
        prefilled.push(json!({"capacity_sweep_oldest_entries": {"typical_bounds": bounds2, "fill_values": fills2.len(), "threads": "[[TryFromA], [TryFromDeep]] and [[BuildA], [UncachedDeep2]]", "executions": sweep2_exec}}));
    }
    let unexplored = bodies.len() - explored_bodies;
    let n_dis = viol.total();
    viol.flush(&mut run);
    let mut cov = Map::new();
    cov.insert("states".into(), json!(total_exec));
    cov.insert("transitions".into(), json!(total_exec));
    cov.insert("traces_validated_against_impl".into(), json!(total_exec));
    cov.insert("samples".into(), json!(samples.items));
    cov.insert("evaluations".into(), json!(total_exec));
    cov.insert("distinct_nontrivial".into(), json!(total_outcomes));
    cov.insert("rule".into(), json!("one evaluation = one complete schedule (loom execution) of a harness body running the real build()/find_iter/peek_n code; loom's DPOR enumerates all schedules of a body (preemption bound: none); distinct_nontrivial = number of distinct completion orders of the threads' operations observed, summed over bodies (more than one per body means the threads really interleaved)"));
    cov.insert("exhaustive".into(), json!(capped == 0 && unexplored == 0 && bounded == 0 && unexplorable == 0));
    cov.insert("bodies_loom_cannot_explore_because_a_library_thread_outlives_the_calls".into(), json!(unexplorable));
    cov.insert("bodies_explored_under_preemption_bound_2_because_unbounded_did_not_close".into(), json!(bounded));
    cov.insert("bodies_not_explored_because_of_the_wall_clock_cap".into(), json!(unexplored));
    cov.insert("harness_bodies".into(), json!(bodies.len()));
    cov.insert("bodies_with_more_than_one_observed_outcome".into(), json!(multi_outcome_bodies));
    cov.insert("bodies_capped".into(), json!(capped));
    cov.insert("preemption_bound".into(), json!("none (2 for the bodies counted above)"));
    cov.insert("bodies_on_a_prefilled_cache".into(), json!(prefilled));
    cov.insert("send_sync_probe".into(), probe);
    cov.insert("supporting_free_running_stress_pass_(sampling)".into(), stress);
    cov.insert("operations".into(), json!(["build(A)", "build(A) again", "build(A' = A with the lookahead polarity flipped)", "build(Bad = unsupported construct)", "scan of input 1 with a shared Arc<Scanner> (built through the cache; patterns include Unicode classes)", "scan of input 2 with the shared scanner", "find_iter + next + peek_n(3) + drain on the shared scanner", "scan of two inputs / peek_n(2) + drain with a second shared scanner L (mode L: `[ab]*a(?!!)`, `[ab]*b(?!\\?)`, `[!?]`, `x(?=[ab]+!)` -> mode M: `a(?=b)`, `a(?!b)`, `b`, `!`): two lookaheads are checked alternately within one token"]));
    cov.insert("disagreeing_bodies".into(), json!(n_dis));
    run.finish(
        "model_checking",
        cov,
        &[
            "scheduling points exist only where the code synchronises (std::sync::{RwLock, Mutex, Condvar, atomic, LazyLock, mpsc} and std::thread are routed to loom by the std facade); std::sync::Arc stays std's, its reference counts are not scheduling points",
            "unsynchronised accesses introduced through `unsafe` are invisible to loom",
            "Scanner: Send + Sync is a type-system fact decided by a compile probe, outside the exploration",
            "a free-running stress pass on OS threads (sampling) is added as supporting evidence for what loom cannot interleave (std Arc/Weak reference counts, drops); the claim rests on the exhaustive exploration",
        ],
    )
}
