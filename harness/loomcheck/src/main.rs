fn main() {}
