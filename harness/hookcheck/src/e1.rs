//! E1 `langcheck`: explicit-state product exploration of compiled automata (dumped from the real
//! Scanner) against Glushkov reference automata over the finite block alphabet (C02, C17), and of
//! minimizer input/output pairs against each other (C03).

use bridge::Cfg;
use refsem::glushkov::Glushkov;
use refsem::sem::{all_scalars, AtomTables, CharSet, Regex};
use scnr::verif::{DfaDump, ScannerDump};
use scnr::Scanner;
use std::collections::HashMap;
use std::sync::{Arc, Mutex, OnceLock};

/// One representative per block of the alphabet partition.
#[derive(Debug)]
pub struct Blocks {
    pub reps: Vec<char>,
}

fn memo_ref() -> &'static Mutex<HashMap<String, Arc<CharSet>>> {
    static M: OnceLock<Mutex<HashMap<String, Arc<CharSet>>>> = OnceLock::new();
    M.get_or_init(Default::default)
}
fn memo_impl() -> &'static Mutex<HashMap<String, Arc<CharSet>>> {
    static M: OnceLock<Mutex<HashMap<String, Arc<CharSet>>>> = OnceLock::new();
    M.get_or_init(Default::default)
}
fn memo_blocks() -> &'static Mutex<HashMap<Vec<String>, Arc<Blocks>>> {
    static M: OnceLock<Mutex<HashMap<Vec<String>, Arc<Blocks>>>> = OnceLock::new();
    M.get_or_init(Default::default)
}

/// Partition of all scalars by membership in every given set.
pub fn partition(sets: &[Arc<CharSet>]) -> Blocks {
    let words = sets.len().div_ceil(64).max(1);
    let mut seen: HashMap<Vec<u64>, char> = HashMap::new();
    let mut reps = vec![];
    let mut sig = vec![0u64; words];
    for c in all_scalars() {
        sig.iter_mut().for_each(|w| *w = 0);
        for (i, s) in sets.iter().enumerate() {
            if s.contains(c) {
                sig[i / 64] |= 1 << (i % 64);
            }
        }
        if !seen.contains_key(&sig) {
            seen.insert(sig.clone(), c);
            reps.push(c);
        }
    }
    // Prefer readable representatives: the first scalar of each block is already the smallest.
    Blocks { reps }
}

/// Block alphabet for a scanner: scalars are equivalent iff no registered class (implementation
/// predicate, all scalars, memoised per class text) and no reference atom (denotation, all
/// scalars, memoised per atom text) tells them apart.
pub fn blocks_for(sc: &Scanner, dump: &ScannerDump, regexes: &[&Regex], t: &AtomTables, memoize_impl: bool) -> Arc<Blocks> {
    let mut key: Vec<String> = dump.classes.iter().map(|c| format!("I:{c}")).collect();
    for r in regexes {
        for a in &r.atoms {
            key.push(format!("R:{}", a.text()));
        }
    }
    key.sort();
    key.dedup();
    if memoize_impl {
        if let Some(b) = memo_blocks().lock().unwrap().get(&key) {
            return b.clone();
        }
    }
    let mut sets: Vec<Arc<CharSet>> = vec![];
    for (id, text) in dump.classes.iter().enumerate() {
        let cached = if memoize_impl { memo_impl().lock().unwrap().get(text).cloned() } else { None };
        let set = match cached {
            Some(s) => s,
            None => {
                let s = Arc::new(CharSet::from_pred(|c| sc.verif_class_matches(id as u32, c).unwrap_or(false)));
                if memoize_impl {
                    memo_impl().lock().unwrap().insert(text.clone(), s.clone());
                }
                s
            }
        };
        sets.push(set);
    }
    for r in regexes {
        for a in &r.atoms {
            let text = a.text();
            let cached = memo_ref().lock().unwrap().get(&text).cloned();
            let set = match cached {
                Some(s) => s,
                None => {
                    let s = Arc::new(CharSet::from_pred(|c| a.has(c, t)));
                    memo_ref().lock().unwrap().insert(text, s.clone());
                    s
                }
            };
            sets.push(set);
        }
    }
    let b = Arc::new(partition(&sets));
    if memoize_impl {
        memo_blocks().lock().unwrap().insert(key, b.clone());
    }
    b
}

/// Result of one product exploration.
#[derive(Default, Debug, Clone)]
pub struct ProductStats {
    pub states: usize,
    pub transitions: usize,
    pub traces_validated: usize,
    pub capped: bool,
}

#[derive(Debug, Clone)]
pub struct Mismatch {
    pub what: String,
    pub witness: String,
}

/// Per class id the membership of every block representative, straight from the implementation.
pub fn class_matrix(sc: &Scanner, n_classes: usize, blocks: &Blocks) -> Vec<Vec<bool>> {
    (0..n_classes).map(|c| blocks.reps.iter().map(|&ch| sc.verif_class_matches(c as u32, ch).unwrap_or(false)).collect()).collect()
}

fn max_class(d: &DfaDump) -> Option<u32> {
    d.states.iter().flatten().map(|t| t.0).max()
}

/// Structural obligations of C02 on one automaton.
pub fn structural(d: &DfaDump, n_classes: usize) -> Option<String> {
    if d.states.len() != d.end_states.len() {
        return Some(format!("states ({}) and end_states ({}) differ in length", d.states.len(), d.end_states.len()));
    }
    if d.end_states.first().map(|e| e.0).unwrap_or(false) {
        return Some("start state 0 is accepting (empty string accepted)".into());
    }
    if let Some(c) = max_class(d) {
        if c as usize >= n_classes {
            return Some(format!("transition refers to unregistered class id {c} (registry has {n_classes})"));
        }
    }
    for (s, ts) in d.states.iter().enumerate() {
        for t in ts {
            if t.1 as usize >= d.states.len() {
                return Some(format!("state {s} has a transition to missing state {}", t.1));
            }
        }
    }
    None
}

pub const PRODUCT_CAP: usize = 200_000;

fn impl_step(d: &DfaDump, st: &[u32], cm: &[Vec<bool>], b: usize, out: &mut Vec<u32>) {
    out.clear();
    for &s in st {
        for &(c, t) in &d.states[s as usize] {
            if cm[c as usize][b] && !out.contains(&t) {
                out.push(t);
            }
        }
    }
    out.sort_unstable();
}

fn accepted_terminals(d: &DfaDump, st: &[u32]) -> Vec<u32> {
    let mut v: Vec<u32> = st.iter().filter(|&&s| d.end_states[s as usize].0).map(|&s| d.end_states[s as usize].1).collect();
    v.sort_unstable();
    v.dedup();
    v
}

fn witness(parents: &[(u32, u16)], mut idx: usize, reps: &[char]) -> String {
    let mut cs = vec![];
    while idx != 0 {
        let (p, b) = parents[idx];
        cs.push(reps[b as usize]);
        idx = p as usize;
    }
    cs.iter().rev().collect()
}

/// Prediction of the first token at position 0 from the dump alone (longest match, then priority).
pub fn predict_first(d: &DfaDump, cm: &dyn Fn(u32, char) -> bool, w: &str) -> Option<(u32, usize)> {
    let mut st: Vec<u32> = vec![0];
    let mut best: Option<(u32, usize)> = None;
    for (i, c) in w.char_indices() {
        let mut nx: Vec<u32> = vec![];
        for &s in &st {
            for &(cc, t) in &d.states[s as usize] {
                if cm(cc, c) && !nx.contains(&t) {
                    nx.push(t);
                }
            }
        }
        if nx.is_empty() {
            break;
        }
        let acc = accepted_terminals(d, &nx);
        if !acc.is_empty() {
            let prio = |t: u32| d.terminal_ids.iter().position(|&x| x == t).unwrap_or(usize::MAX);
            let t = *acc.iter().min_by_key(|&&t| prio(t)).unwrap();
            best = Some((t, i + c.len_utf8()));
        }
        st = nx;
    }
    best
}

/// Product of one compiled automaton with the reference automata of `patterns`
/// (`(regex, token type)`), over the block alphabet. `conform`: scan every BFS witness with the
/// real scanner `(scanner, mode index)` and compare the first token with the dump's prediction.
#[allow(clippy::too_many_arguments)]
pub fn product_vs_reference(
    d: &DfaDump,
    patterns: &[(&Regex, u32)],
    glus: &[Glushkov],
    blocks: &Blocks,
    cm: &[Vec<bool>],
    t: &AtomTables,
    conform: Option<(&Scanner, usize)>,
    stats: &mut ProductStats,
) -> Option<Mismatch> {
    let nb = blocks.reps.len();
    // atom membership of a block representative, per pattern, computed on demand
    let atom_row = |pi: usize, b: usize| -> Vec<bool> { patterns[pi].0.atoms.iter().map(|a| a.has(blocks.reps[b], t)).collect() };
    // Reference state: `None` = nothing read yet (every pattern in its initial state), otherwise
    // the sorted list of patterns that are still alive with their position sets. Dead patterns
    // (empty position set) can never accept again and are dropped, which keeps the product small
    // for sets of thousands of patterns.
    type RefSt = Option<Vec<(u32, Vec<u32>)>>;
    type St = (Vec<u32>, RefSt);
    let init: St = (vec![0], None);
    let mut index: HashMap<St, u32> = HashMap::new();
    let mut states: Vec<St> = vec![init.clone()];
    let mut parents: Vec<(u32, u16)> = vec![(0, 0)];
    index.insert(init, 0);
    let mut head = 0usize;
    let mut ni: Vec<u32> = vec![];
    let mut result = None;
    'bfs: while head < states.len() {
        let st = states[head].clone();
        for b in 0..nb {
            stats.transitions += 1;
            impl_step(d, &st.0, cm, b, &mut ni);
            let mut alive: Vec<(u32, Vec<u32>)> = vec![];
            match &st.1 {
                None => {
                    for (pi, g) in glus.iter().enumerate() {
                        let nx = g.step(None, &atom_row(pi, b));
                        if !nx.is_empty() {
                            alive.push((pi as u32, nx));
                        }
                    }
                }
                Some(list) => {
                    for (pi, pos) in list {
                        let nx = glus[*pi as usize].step(Some(pos), &atom_row(*pi as usize, b));
                        if !nx.is_empty() {
                            alive.push((*pi, nx));
                        }
                    }
                }
            }
            let acc_i = accepted_terminals(d, &ni);
            let mut acc_r: Vec<u32> = alive.iter().filter(|(pi, s)| glus[*pi as usize].accepting(s)).map(|(pi, _)| patterns[*pi as usize].1).collect();
            acc_r.sort_unstable();
            acc_r.dedup();
            if acc_i != acc_r {
                let mut w = witness(&parents, head, &blocks.reps);
                w.push(blocks.reps[b]);
                let show = |v: &Vec<u32>| if v.len() > 12 { format!("{:?}.. ({} token types)", &v[..12], v.len()) } else { format!("{v:?}") };
                result = Some(Mismatch { what: format!("after reading the string the automaton accepts token types {}, the patterns accept {}", show(&acc_i), show(&acc_r)), witness: w });
                break 'bfs;
            }
            if ni.is_empty() && alive.is_empty() {
                continue;
            }
            let ns: St = (ni.clone(), Some(alive));
            if !index.contains_key(&ns) {
                if states.len() >= PRODUCT_CAP {
                    stats.capped = true;
                    break 'bfs;
                }
                index.insert(ns.clone(), states.len() as u32);
                states.push(ns);
                parents.push((head as u32, b as u16));
            }
        }
        head += 1;
    }
    stats.states += states.len();
    if result.is_none() {
        if let Some((sc, mode)) = conform {
            // Conformance of the dump: every BFS witness is scanned by the real scanner.
            for idx in 1..states.len() {
                let w = witness(&parents, idx, &blocks.reps);
                let pred = predict_first(d, &|c, ch| sc.verif_class_matches(c, ch).unwrap_or(false), &w);
                let got = bridge::catch(|| {
                    let mut it = sc.find_iter(&w);
                    if mode != 0 {
                        use scnr::ScannerModeSwitcher;
                        it.set_mode(mode);
                    }
                    it.next().map(|m| (m.token_type(), m.start(), m.end()))
                });
                stats.traces_validated += 1;
                let ok = match (&got, pred) {
                    (Err(_), _) => false,
                    (Ok(Some((tt, s, e))), Some((pt, pe))) => *s == 0 && *e == pe && *tt as u32 == pt,
                    (Ok(Some((_, s, _))), None) => *s > 0,
                    (Ok(None), None) => true,
                    (Ok(None), Some(_)) => false,
                };
                if !ok {
                    return Some(Mismatch { what: format!("dump does not conform to the scanner: dump predicts first token {pred:?}, scanner returned {got:?}"), witness: w });
                }
            }
        }
    }
    result
}

/// Product of two compiled automata over the same class ids (C03): equal accepted token types in
/// every reachable pair of state sets.
pub fn product_pair(a: &DfaDump, b: &DfaDump, blocks: &Blocks, cm: &[Vec<bool>], stats: &mut ProductStats) -> Option<Mismatch> {
    let nb = blocks.reps.len();
    type St = (Vec<u32>, Vec<u32>);
    let init: St = (vec![0], vec![0]);
    let mut index: HashMap<St, u32> = HashMap::new();
    let mut states: Vec<St> = vec![init.clone()];
    let mut parents: Vec<(u32, u16)> = vec![(0, 0)];
    index.insert(init, 0);
    let mut head = 0usize;
    let (mut na, mut nbv) = (vec![], vec![]);
    let mut result = None;
    'bfs: while head < states.len() {
        let st = states[head].clone();
        for blk in 0..nb {
            stats.transitions += 1;
            impl_step(a, &st.0, cm, blk, &mut na);
            impl_step(b, &st.1, cm, blk, &mut nbv);
            let (x, y) = (accepted_terminals(a, &na), accepted_terminals(b, &nbv));
            if x != y {
                let mut w = witness(&parents, head, &blocks.reps);
                w.push(blocks.reps[blk]);
                result = Some(Mismatch { what: format!("before minimization the string is accepted for token types {x:?}, after minimization for {y:?}"), witness: w });
                break 'bfs;
            }
            if na.is_empty() && nbv.is_empty() {
                continue;
            }
            let ns: St = (na.clone(), nbv.clone());
            if !index.contains_key(&ns) {
                if states.len() >= PRODUCT_CAP {
                    stats.capped = true;
                    break 'bfs;
                }
                index.insert(ns.clone(), states.len() as u32);
                states.push(ns);
                parents.push((head as u32, blk as u16));
            }
        }
        head += 1;
    }
    stats.states += states.len();
    result
}

/// What E1 found for one configuration.
#[derive(Default)]
pub struct E1Outcome {
    pub c02: Vec<(String, Mismatch)>,
    pub c03: Vec<(String, Mismatch)>,
    pub stats02: ProductStats,
    pub stats03: ProductStats,
    pub pairs03: usize,
    pub automata02: usize,
    pub blocks: usize,
    pub build_error: Option<String>,
}

/// Builds `cfg` (uncached, with the minimizer recorder on) and runs the C02 and/or C03 products.
pub fn check_cfg(cfg: &Cfg, t: &AtomTables, do02: bool, do03: bool, conform: bool, memoize_impl: bool) -> E1Outcome {
    check_cfg_with(cfg, t, do02, do03, conform, memoize_impl, None)
}

/// Like [`check_cfg`]; `blocks_override` supplies a partition that is at least as fine as the one
/// the scanner's own classes induce (computed once for a whole family with a fixed class menu).
pub fn check_cfg_with(cfg: &Cfg, t: &AtomTables, do02: bool, do03: bool, conform: bool, memoize_impl: bool, blocks_override: Option<Arc<Blocks>>) -> E1Outcome {
    let mut out = E1Outcome::default();
    let spec = match cfg.to_spec() {
        Ok(s) => s,
        Err(e) => {
            out.build_error = Some(format!("reference cannot parse: {e}"));
            return out;
        }
    };
    scnr::verif::minimizer_recording(do03);
    let built = bridge::catch(|| cfg.build_uncached());
    let log = if do03 { scnr::verif::minimizer_take_log() } else { vec![] };
    scnr::verif::minimizer_recording(false);
    let sc = match built {
        Ok(Ok(sc)) => sc,
        Ok(Err(e)) => {
            out.build_error = Some(e);
            return out;
        }
        Err(p) => {
            out.build_error = Some(format!("panic: {p}"));
            return out;
        }
    };
    analyse_built(&sc, &spec, &log, t, do02, do03, conform, memoize_impl, blocks_override, out)
}

/// The C02/C03 analysis of an already built scanner (`log` = recorded minimizer pairs of its build).
#[allow(clippy::too_many_arguments)]
pub fn analyse_built(
    sc: &Scanner,
    spec: &[refsem::model::ModeSpec],
    log: &[(DfaDump, DfaDump)],
    t: &AtomTables,
    do02: bool,
    do03: bool,
    conform: bool,
    memoize_impl: bool,
    blocks_override: Option<Arc<Blocks>>,
    mut out: E1Outcome,
) -> E1Outcome {
    let dump = sc.verif_dump();
    let mut regexes: Vec<&Regex> = vec![];
    for m in spec {
        for p in &m.patterns {
            regexes.push(&p.regex);
            if let Some((_, l)) = &p.la {
                regexes.push(l);
            }
        }
    }
    let blocks = match blocks_override {
        Some(b) => b,
        None => blocks_for(sc, &dump, &regexes, t, memoize_impl),
    };
    out.blocks = blocks.reps.len();
    let cm = class_matrix(sc, dump.classes.len(), &blocks);
    if do02 {
        if dump.modes.len() != spec.len() {
            out.c02.push(("modes".into(), Mismatch { what: format!("{} modes configured, {} compiled", spec.len(), dump.modes.len()), witness: String::new() }));
        }
        for (mi, (md, ms)) in dump.modes.iter().zip(spec.iter()).enumerate() {
            let where_ = format!("mode {mi} ({})", ms.name);
            out.automata02 += 1;
            if let Some(s) = structural(&md.dfa, dump.classes.len()) {
                out.c02.push((where_.clone(), Mismatch { what: s, witness: String::new() }));
                continue;
            }
            let pats: Vec<(&Regex, u32)> = ms.patterns.iter().map(|p| (&p.regex, p.token_type as u32)).collect();
            let glus: Vec<Glushkov> = pats.iter().map(|(r, _)| Glushkov::build(r)).collect();
            let has_la = ms.patterns.iter().any(|p| p.la.is_some());
            let conf = if conform && !has_la { Some((sc, mi)) } else { None };
            if let Some(m) = product_vs_reference(&md.dfa, &pats, &glus, &blocks, &cm, t, conf, &mut out.stats02) {
                out.c02.push((where_.clone(), m));
            }
            // every lookahead automaton against its lookahead pattern
            for p in ms.patterns.iter() {
                if let Some((positive, la)) = &p.la {
                    let tt = p.token_type as u32;
                    // S8: lookaheads are stored per token type; with a shared token type only the
                    // last pattern's lookahead is kept, so compare against the last one.
                    let last_for_tt = ms.patterns.iter().filter(|q| q.token_type as u32 == tt && q.la.is_some()).last().unwrap();
                    if !std::ptr::eq(last_for_tt, p) {
                        continue;
                    }
                    let where_la = format!("{where_} lookahead of token type {tt}");
                    out.automata02 += 1;
                    match md.dfa.lookaheads.iter().find(|l| l.0 == tt) {
                        None => out.c02.push((where_la, Mismatch { what: "no compiled lookahead for this token type".into(), witness: String::new() })),
                        Some((_, pos, ld)) => {
                            if pos != positive {
                                out.c02.push((where_la.clone(), Mismatch { what: format!("polarity: configured positive={positive}, compiled positive={pos}"), witness: String::new() }));
                            }
                            if let Some(s) = structural(ld, dump.classes.len()) {
                                out.c02.push((where_la, Mismatch { what: s, witness: String::new() }));
                                continue;
                            }
                            // A lookahead automaton reports its own terminal (0 on the pinned tree); accept any
                            // single value: compare against the terminal ids it declares.
                            let term = ld.terminal_ids.first().copied().unwrap_or(0);
                            let g = vec![Glushkov::build(la)];
                            if let Some(m) = product_vs_reference(ld, &[(la, term)], &g, &blocks, &cm, t, None, &mut out.stats02) {
                                out.c02.push((where_la, m));
                            }
                        }
                    }
                }
            }
        }
    }
    if do03 {
        // binding of the recorder to the scanner: a recorded output that appears verbatim (modulo
        // the lookaheads attached afterwards) in the final dump is an automaton the scanner uses
        let strip = |d: &DfaDump| {
            let mut x = d.clone();
            x.lookaheads.clear();
            x
        };
        let mut used: Vec<DfaDump> = vec![];
        for m in &dump.modes {
            used.push(strip(&m.dfa));
            for l in &m.dfa.lookaheads {
                used.push(strip(&l.2));
            }
        }
        for (k, (a, b)) in log.iter().enumerate() {
            out.pairs03 += 1;
            if used.contains(&strip(b)) {
                out.stats03.traces_validated += 1;
            }
            let where_ = format!("minimizer call #{k} (patterns {:?})", a.patterns);
            if let Some(s) = structural(b, dump.classes.len()) {
                // an accepting start state of the *input* is not the minimizer's fault
                if structural(a, dump.classes.len()).is_none() {
                    out.c03.push((where_.clone(), Mismatch { what: format!("output automaton: {s}"), witness: String::new() }));
                }
                continue;
            }
            if structural(a, dump.classes.len()).is_some() {
                continue;
            }
            if b.states.len() > a.states.len() {
                out.c03.push((where_.clone(), Mismatch { what: format!("minimized automaton has more states ({}) than its input ({})", b.states.len(), a.states.len()), witness: String::new() }));
            }
            if let Some(m) = product_pair(a, b, &blocks, &cm, &mut out.stats03) {
                out.c03.push((where_, m));
            }
        }
    }
    out
}
