//! C18: the DOT export is a faithful picture of the compiled automata. Every generated file is
//! parsed with a strict parser for the DOT subset dot-writer emits and compared with the dump.

use bridge::{catch, CMode, CPat, Cfg};
use refsem::evidence::{Run, Samples, Tier, ViolAcc, Violation};
use refsem::families::g_upto;
use refsem::par::par_for;
use scnr::verif::DfaDump;
use serde_json::{json, Map};
use std::collections::BTreeMap;
use std::path::{Path, PathBuf};

// ---------------------------------------------------------------------------------------------
// strict DOT subset parser
// ---------------------------------------------------------------------------------------------

#[derive(Debug, Clone, PartialEq)]
enum Tok {
    Id(String),
    /// raw content between the quotes (escapes not processed) and the unescaped value
    Q(String),
    Sym(char),
    Arrow,
}

fn lex(src: &str) -> Result<Vec<Tok>, String> {
    let cs: Vec<char> = src.chars().collect();
    let mut i = 0;
    let mut out = vec![];
    while i < cs.len() {
        let c = cs[i];
        if c.is_whitespace() {
            i += 1;
        } else if c == '/' && cs.get(i + 1) == Some(&'/') || c == '#' && (i == 0 || cs[i - 1] == '\n') {
            // line comment / preprocessor-style line
            while i < cs.len() && cs[i] != '\n' {
                i += 1;
            }
        } else if c == '/' && cs.get(i + 1) == Some(&'*') {
            match src[src.char_indices().nth(i + 2).map(|x| x.0).unwrap_or(src.len())..].find("*/") {
                Some(_) => {
                    i += 2;
                    while i + 1 < cs.len() && !(cs[i] == '*' && cs[i + 1] == '/') {
                        i += 1;
                    }
                    i += 2;
                }
                None => return Err("unterminated comment".into()),
            }
        } else if c == '"' {
            // DOT quoted string: `\"` is an escaped quote, `\\` an escaped backslash, any other
            // backslash sequence is kept for the label processor
            let mut s = String::new();
            i += 1;
            loop {
                if i >= cs.len() {
                    return Err("unterminated quoted string".into());
                }
                match cs[i] {
                    '\\' => {
                        if i + 1 >= cs.len() {
                            return Err("unterminated quoted string (trailing backslash)".into());
                        }
                        match cs[i + 1] {
                            '"' => s.push('"'),
                            '\\' => s.push('\\'),
                            o => {
                                s.push('\\');
                                s.push(o);
                            }
                        }
                        i += 2;
                    }
                    '"' => {
                        i += 1;
                        break;
                    }
                    '\n' => return Err("raw line break inside a quoted string".into()),
                    o => {
                        s.push(o);
                        i += 1;
                    }
                }
            }
            out.push(Tok::Q(s));
        } else if c == '-' && cs.get(i + 1) == Some(&'>') {
            out.push(Tok::Arrow);
            i += 2;
        } else if "{}[];,=".contains(c) {
            out.push(Tok::Sym(c));
            i += 1;
        } else if c.is_ascii_digit() || ((c == '.' || c == '-') && cs.get(i + 1).is_some_and(|d| d.is_ascii_digit() || (c == '-' && *d == '.'))) {
            // DOT numeral: [-]?(.[0-9]+ | [0-9]+(.[0-9]*)?); it ends where the numeral ends, whatever
            // follows (`9_0` is the numeral 9 followed by the identifier _0, as Graphviz reads it)
            let mut s = String::new();
            if cs[i] == '-' {
                s.push('-');
                i += 1;
            }
            while i < cs.len() && cs[i].is_ascii_digit() {
                s.push(cs[i]);
                i += 1;
            }
            if i < cs.len() && cs[i] == '.' {
                s.push('.');
                i += 1;
                while i < cs.len() && cs[i].is_ascii_digit() {
                    s.push(cs[i]);
                    i += 1;
                }
            }
            out.push(Tok::Id(s));
        } else if c.is_ascii_alphabetic() || c == '_' || !c.is_ascii() {
            // DOT identifier: [a-zA-Z_\200-\377][a-zA-Z_0-9\200-\377]*
            let mut s = String::new();
            while i < cs.len() && (cs[i].is_ascii_alphanumeric() || cs[i] == '_' || !cs[i].is_ascii()) {
                s.push(cs[i]);
                i += 1;
            }
            out.push(Tok::Id(s));
        } else {
            return Err(format!("unexpected character {c:?} outside a quoted string"));
        }
    }
    Ok(out)
}

#[derive(Debug, Default, Clone)]
struct Graph {
    attrs: BTreeMap<String, String>,
    /// node id -> attributes
    nodes: Vec<(String, BTreeMap<String, String>)>,
    /// (from, to, attributes)
    edges: Vec<(String, String, BTreeMap<String, String>)>,
    clusters: Vec<(String, Graph)>,
}

struct P {
    t: Vec<Tok>,
    i: usize,
}

impl P {
    fn peek(&self) -> Option<&Tok> {
        self.t.get(self.i)
    }
    fn next(&mut self) -> Result<Tok, String> {
        let t = self.t.get(self.i).cloned().ok_or("unexpected end of file")?;
        self.i += 1;
        Ok(t)
    }
    fn expect(&mut self, c: char) -> Result<(), String> {
        match self.next()? {
            Tok::Sym(x) if x == c => Ok(()),
            o => Err(format!("expected {c:?}, found {o:?}")),
        }
    }
    fn value(&mut self) -> Result<String, String> {
        match self.next()? {
            Tok::Id(s) | Tok::Q(s) => Ok(s),
            o => Err(format!("expected a value, found {o:?}")),
        }
    }
    fn attr_list(&mut self) -> Result<BTreeMap<String, String>, String> {
        self.expect('[')?;
        let mut m = BTreeMap::new();
        loop {
            let k = match self.next()? {
                Tok::Id(s) => s,
                Tok::Sym(']') if m.is_empty() => return Ok(m),
                o => return Err(format!("expected an attribute name, found {o:?}")),
            };
            self.expect('=')?;
            let v = self.value()?;
            if m.insert(k.clone(), v).is_some() {
                return Err(format!("attribute {k} given twice"));
            }
            match self.next()? {
                Tok::Sym(',') => continue,
                Tok::Sym(']') => return Ok(m),
                o => return Err(format!("expected ',' or ']', found {o:?}")),
            }
        }
    }
    fn opt_semi(&mut self) {
        if let Some(Tok::Sym(';')) = self.peek() {
            self.i += 1;
        }
    }
    fn opt_attrs(&mut self) -> Result<BTreeMap<String, String>, String> {
        if let Some(Tok::Sym('[')) = self.peek() {
            self.attr_list()
        } else {
            Ok(BTreeMap::new())
        }
    }
    fn body(&mut self) -> Result<Graph, String> {
        self.expect('{')?;
        let mut g = Graph::default();
        loop {
            match self.next()? {
                Tok::Sym('}') => return Ok(g),
                Tok::Sym(';') => {}
                Tok::Id(s) if (s == "node" || s == "edge" || s == "graph") && matches!(self.peek(), Some(Tok::Sym('['))) => {
                    // default attribute statement: well-formed, irrelevant for the comparison
                    self.attr_list()?;
                    self.opt_semi();
                }
                Tok::Id(s) if s == "subgraph" => {
                    let name = match self.next()? {
                        Tok::Id(n) => n,
                        o => return Err(format!("expected a subgraph name, found {o:?}")),
                    };
                    let sub = self.body()?;
                    g.clusters.push((name, sub));
                }
                Tok::Id(k) if matches!(self.peek(), Some(Tok::Sym('='))) => {
                    // graph attribute
                    self.expect('=')?;
                    let v = self.value()?;
                    self.opt_semi();
                    g.attrs.insert(k, v);
                }
                Tok::Q(a) | Tok::Id(a) => match self.peek() {
                    Some(Tok::Arrow) => {
                        self.i += 1;
                        let b = match self.next()? {
                            Tok::Q(b) | Tok::Id(b) => b,
                            o => return Err(format!("expected a node id after '->', found {o:?}")),
                        };
                        let at = self.opt_attrs()?;
                        self.opt_semi();
                        g.edges.push((a, b, at));
                    }
                    _ => {
                        let at = self.opt_attrs()?;
                        self.opt_semi();
                        g.nodes.push((a, at));
                    }
                },
                o => return Err(format!("unexpected token {o:?} at statement start")),
            }
        }
    }
}

fn parse_dot(src: &str) -> Result<Graph, String> {
    let mut p = P { t: lex(src)?, i: 0 };
    let mut first = p.next()?;
    if first == Tok::Id("strict".into()) {
        first = p.next()?;
    }
    match first {
        Tok::Id(s) if s == "digraph" => {}
        o => return Err(format!("expected 'digraph', found {o:?}")),
    }
    // optional graph name
    if let Some(Tok::Id(_)) | Some(Tok::Q(_)) = p.peek() {
        p.i += 1;
    }
    let g = p.body()?;
    if p.i != p.t.len() {
        return Err("trailing tokens after the graph".into());
    }
    Ok(g)
}

// ---------------------------------------------------------------------------------------------
// comparison with the dump
// ---------------------------------------------------------------------------------------------

/// Parses a node label: the state id (first token) and, for accepting states, the token type
/// (`T<type>`).
fn parse_node_label(label: &str) -> Option<(usize, Option<u32>)> {
    let mut it = label.split_whitespace();
    let id: usize = it.next()?.parse().ok()?;
    let mut tt = None;
    for tok in it {
        if let Some(n) = tok.strip_prefix('T').and_then(|x| x.parse::<u32>().ok()) {
            tt = Some(n);
        }
    }
    Some((id, tt))
}

/// Compares one drawn automaton with its dump. Node identity is taken from the labels (state id),
/// not from the node names, so that another naming scheme of the nodes is not an alarm.
fn compare_automaton(g: &Graph, d: &DfaDump, n_classes: usize) -> Result<(), String> {
    let n = d.states.len();
    let mut name_to_id: BTreeMap<String, usize> = BTreeMap::new();
    let mut seen = vec![false; n];
    for (name, at) in &g.nodes {
        let label = at.get("label").cloned().unwrap_or_else(|| name.clone());
        let (id, tt) = parse_node_label(&label).ok_or_else(|| format!("node {name:?} has label {label:?}: no state id"))?;
        if id >= n {
            return Err(format!("node {name:?} is labelled as state {id}, the automaton has {n} states"));
        }
        if let Some(prev) = name_to_id.get(name) {
            if *prev != id {
                return Err(format!("node {name:?} is drawn twice with different state ids"));
            }
            continue;
        }
        if seen[id] {
            return Err(format!("state {id} is drawn twice"));
        }
        seen[id] = true;
        name_to_id.insert(name.clone(), id);
        let accepting = id != 0 && d.end_states[id].0;
        match (accepting, tt) {
            (true, Some(t)) if t == d.end_states[id].1 => {}
            (true, other) => return Err(format!("accepting state {id} (token type {}) is labelled {label:?} (token type shown: {other:?})", d.end_states[id].1)),
            (false, Some(t)) => return Err(format!("state {id} is not accepting but labelled {label:?} (T{t})")),
            (false, None) => {}
        }
    }
    if let Some(missing) = seen.iter().position(|s| !s) {
        return Err(format!("state {missing} is not drawn ({} of {n} states drawn)", seen.iter().filter(|s| **s).count()));
    }
    // edges as a multiset of (from, to, class id)
    let mut want: Vec<(usize, usize, u32)> = vec![];
    for (s, ts) in d.states.iter().enumerate() {
        for (c, t) in ts {
            want.push((s, *t as usize, *c));
        }
    }
    let mut got: Vec<(usize, usize, u32)> = vec![];
    for (a, b, at) in &g.edges {
        let label = at.get("label").cloned().unwrap_or_default();
        let cid = label.rfind("(C#").and_then(|i| label[i + 3..].strip_suffix(')')).and_then(|s| s.parse::<u32>().ok()).ok_or_else(|| format!("edge {a} -> {b} has label {label:?} without a '(C#<id>)' suffix"))?;
        if cid as usize >= n_classes {
            return Err(format!("edge {a} -> {b} refers to class id {cid}, the registry has {n_classes}"));
        }
        let (Some(x), Some(y)) = (name_to_id.get(a), name_to_id.get(b)) else { return Err(format!("edge {a} -> {b} uses a node that is not drawn in this (sub)graph")) };
        got.push((*x, *y, cid));
    }
    want.sort();
    got.sort();
    if want != got {
        let missing: Vec<_> = want.iter().filter(|w| !got.contains(w)).take(3).collect();
        let extra: Vec<_> = got.iter().filter(|w| !want.contains(w)).take(3).collect();
        return Err(format!("edges differ from the transitions: {} drawn, {} transitions; missing (from,to,class) {missing:?}, extra {extra:?}", got.len(), want.len()));
    }
    Ok(())
}

fn compare_mode(src: &str, d: &DfaDump, n_classes: usize) -> Result<(), String> {
    let g = parse_dot(src).map_err(|e| format!("not well-formed DOT: {e}"))?;
    compare_automaton(&g, d, n_classes)?;
    if g.clusters.len() != d.lookaheads.len() {
        return Err(format!("{} clusters drawn, the mode has {} lookaheads", g.clusters.len(), d.lookaheads.len()));
    }
    // node names must not collide between the main automaton and the clusters
    let mut all_names: Vec<&String> = g.nodes.iter().map(|n| &n.0).collect();
    for c in &g.clusters {
        all_names.extend(c.1.nodes.iter().map(|n| &n.0));
    }
    let total = all_names.len();
    all_names.sort();
    all_names.dedup();
    if all_names.len() != total {
        return Err("node names collide between the automaton and a lookahead cluster (or within one)".into());
    }
    for (tt, positive, la) in &d.lookaheads {
        // the cluster of this lookahead: its label names the token type and the polarity
        let is_for = |label: &str| label.split(|c: char| !c.is_ascii_alphanumeric()).any(|w| w == format!("T{tt}"));
        let cl: Vec<&(String, Graph)> = g.clusters.iter().filter(|c| c.1.attrs.get("label").map(|l| is_for(l)).unwrap_or(false)).collect();
        if cl.len() != 1 {
            return Err(format!("{} clusters for the lookahead of token type {tt} (cluster labels: {:?})", cl.len(), g.clusters.iter().map(|c| c.1.attrs.get("label").cloned().unwrap_or_default()).collect::<Vec<_>>()));
        }
        let label = cl[0].1.attrs.get("label").cloned().unwrap_or_default();
        let (says_pos, says_neg) = (label.contains("Pos"), label.contains("Neg"));
        if says_pos == says_neg || says_pos != *positive {
            return Err(format!("cluster {label:?}: the lookahead of token type {tt} is {}", if *positive { "positive" } else { "negative" }));
        }
        if !cl[0].0.starts_with("cluster") {
            return Err(format!("lookahead subgraph is named {:?}, not cluster*", cl[0].0));
        }
        compare_automaton(&cl[0].1, la, n_classes).map_err(|e| format!("lookahead cluster of T{tt}: {e}"))?;
    }
    Ok(())
}

fn scratch_dir(tag: &str) -> PathBuf {
    let base = refsem::evidence::verif_root().join("harness").join("target").join("dot-scratch");
    let d = base.join(format!("{}-{tag}", std::process::id()));
    let _ = std::fs::remove_dir_all(&d);
    std::fs::create_dir_all(&d).expect("scratch directory");
    d
}

/// Generates the files of one configuration and compares every one with the dump.
fn check_cfg(cfg: &Cfg, dir: &Path, prefix: &str, files_out: &mut usize, clean_first: bool) -> Result<bool, String> {
    let sc = match catch(|| cfg.build_uncached()) {
        Ok(Ok(sc)) => sc,
        _ => return Ok(false),
    };
    // Every other configuration is exported into the folder as the previous export left it (same
    // prefix, often the same mode names): an export must replace older files completely.
    if clean_first {
        for e in std::fs::read_dir(dir).map_err(|e| e.to_string())?.flatten() {
            let _ = std::fs::remove_file(e.path());
        }
    }
    match catch(|| sc.generate_compiled_automata_as_dot(prefix, dir)) {
        Err(p) => return Err(format!("generate_compiled_automata_as_dot panicked: {p}")),
        Ok(Err(e)) => return Err(format!("generate_compiled_automata_as_dot failed on a writable folder: {e}")),
        Ok(Ok(())) => {}
    }
    let dump = sc.verif_dump();
    let mut names: Vec<String> = std::fs::read_dir(dir).map_err(|e| e.to_string())?.flatten().map(|e| e.file_name().to_string_lossy().to_string()).collect();
    names.sort();
    let mut want: Vec<String> = cfg.modes.iter().map(|m| format!("{prefix}_{}.dot", m.name)).collect();
    want.sort();
    if clean_first && names != want {
        return Err(format!("files written {names:?}, expected one per mode: {want:?}"));
    }
    if let Some(missing) = want.iter().find(|w| !names.contains(w)) {
        return Err(format!("no file {missing:?} was written (files in the folder: {} )", names.len()));
    }
    for (mi, m) in cfg.modes.iter().enumerate() {
        let path = dir.join(format!("{prefix}_{}.dot", m.name));
        let src = std::fs::read_to_string(&path).map_err(|e| format!("{}: {e}", path.display()))?;
        *files_out += 1;
        compare_mode(&src, &dump.modes[mi].dfa, dump.classes.len()).map_err(|e| format!("file of mode {mi} ({:?}): {e}", m.name))?;
    }
    Ok(true)
}

#[derive(Default)]
struct Acc {
    cfgs: usize,
    files: usize,
    nontrivial: usize,
    viol: ViolAcc,
    samples: Samples,
}

pub fn run(tier: Tier) -> ! {
    let mut run = Run::new("C18", tier);
    let mut cfgs: Vec<(String, Cfg)> = vec![];
    let g3 = g_upto(if tier == Tier::Quick { 4 } else { 5 });
    for p in &g3 {
        cfgs.push(("G-singles".into(), Cfg::single(vec![CPat::new(p, 4)])));
    }
    let g2 = g_upto(2);
    for p in &g2 {
        for q in &g2 {
            cfgs.push(("G(2)-pairs".into(), Cfg::single(vec![CPat::new(p, 1), CPat::new(q, 0)])));
        }
    }
    // lookaheads: polarity, several per mode, token types with several digits
    for (i, l) in g_upto(if tier == Tier::Quick { 2 } else { 3 }).iter().enumerate() {
        if refsem::sem::Regex::parse(l).map(|r| r.nullable()).unwrap_or(true) {
            continue;
        }
        cfgs.push(("lookaheads".into(), Cfg::single(vec![CPat::new("a", 0).with_la(i % 2 == 0, l), CPat::new("[ab]+", 12).with_la(i % 2 == 1, l), CPat::new("b", 2)])));
        cfgs.push((
            "lookaheads".into(),
            Cfg {
                modes: vec![
                    CMode { name: "A".into(), pats: vec![CPat::new("ab", 1).with_la(true, l), CPat::new("x", 21).with_la(false, "ab")], transitions: vec![(1, 1)] },
                    CMode { name: "B".into(), pats: vec![CPat::new(l, 11).with_la(false, l)], transitions: vec![(11, 0)] },
                ],
            },
        ));
    }
    // several lookaheads in one mode whose token types are prefixes of each other as decimal
    // numbers (1 / 11 / 112, 2 / 21, 12 / 121) and whose automata have more than ten states:
    // node names built from token type and state id must stay distinct
    for (t1, t2, t3) in [(1usize, 11usize, 112usize), (2, 21, 212), (12, 121, 1), (3, 30, 303), (10, 101, 1)] {
        let long = "abcdefghijklmnopqrstu";
        cfgs.push(("lookaheads".into(), Cfg::single(vec![CPat::new("a", t1).with_la(true, long), CPat::new("b", t2).with_la(false, &long[..13]), CPat::new("x", t3).with_la(true, "ab"), CPat::new("[abx]", 0)])));
        cfgs.push(("lookaheads".into(), Cfg::single(vec![CPat::new("a", t2).with_la(false, "ab"), CPat::new("b", t1).with_la(true, &long[..12]), CPat::new("x", t3).with_la(false, long)])));
    }
    // labels needing escapes
    let odd = ["A\"B", "back\\slash", "tab\tname", "curly{|}<>", "ünï€😀", "semi;colon=[x]", "quote\\\"both", "-> arrow", "trailing\\"];
    for n in odd {
        cfgs.push(("labels".into(), Cfg { modes: vec![CMode { name: n.to_string(), pats: vec![CPat::new("a\"b", 0), CPat::new("[\"\\\\]+", 1), CPat::new("\\u{22}x", 2).with_la(false, "\"")], transitions: vec![] }, CMode { name: "plain".into(), pats: vec![CPat::new("\\\\", 0), CPat::new("[{}|<>]", 1), CPat::new("\\n|\\t", 3)], transitions: vec![] }] }));
    }
    // every way of writing quotes and backslashes in a pattern, at the start, in the middle and at
    // the end of the class text shown in a label
    let tricky = ["\\\"", "\\\"[^\\\"]*\\\"", "a\\\"", "\\\\\\\"", "[\\\"]", "[^\\\"\\\\]", "\\\\", "a\\\\", "\\'", "\\x22", "\\x5C", "[\\x22-\\x5c]", "\\n\\\"", "\\{\\}", "\\|<>", "\\[\\]", "[\\]\\[]"];
    for (i, t) in tricky.iter().enumerate() {
        cfgs.push(("labels".into(), Cfg::single(vec![CPat::new(t, i), CPat::new("x", 100).with_la(i % 2 == 0, t)])));
    }
    // long texts: k ASCII letters followed by a 2-, 3- or 4-byte character (titles, labels and file
    // names are built from pattern text and mode names), long multi-byte mode names
    for ch in ["é", "あ", "😀"] {
        for k in (0..=140).step_by(1) {
            if k % 3 == ch.len() % 3 || k > 60 && k < 100 {
                cfgs.push(("long-texts".into(), Cfg::single(vec![CPat::new(&format!("{}{ch}", "a".repeat(k)), 1)])));
            }
        }
    }
    for k in [30usize, 39, 40, 41, 63, 64, 65, 79, 80, 81, 90] {
        cfgs.push(("long-texts".into(), Cfg { modes: vec![CMode { name: "Ä".repeat(k), pats: vec![CPat::new("[aé]+", 0)], transitions: vec![] }, CMode { name: format!("{}€", "b".repeat(k)), pats: vec![CPat::new("é", 0)], transitions: vec![] }] }));
    }
    // dots in mode names (and in the prefix, see below)
    cfgs.push(("names".into(), Cfg { modes: vec![CMode { name: "STRING.ESCAPE".into(), pats: vec![CPat::new("ab", 1)], transitions: vec![] }, CMode { name: "STRING".into(), pats: vec![CPat::new("x", 2)], transitions: vec![] }, CMode { name: "a.b.c".into(), pats: vec![CPat::new("y+", 3)], transitions: vec![] }, CMode { name: ".hidden".into(), pats: vec![CPat::new("z", 4)], transitions: vec![] }] }));
    cfgs.push(("labels".into(), Cfg { modes: vec![CMode { name: "N".repeat(200), pats: vec![CPat::new("a", 0)], transitions: vec![] }] }));
    for (n, c, _) in bridge::corpora(tier == Tier::Thorough) {
        cfgs.push((format!("corpus:{n}"), c));
    }
    let accs = par_for(cfgs.len(), 8, || (Acc { samples: Samples::new(1), ..Default::default() }, None::<PathBuf>), |st, i| {
        let (acc, dir) = st;
        if dir.is_none() {
            *dir = Some(scratch_dir(&format!("{:?}", std::thread::current().id()).replace(['(', ')'], "")));
        }
        let (fam, cfg) = &cfgs[i];
        acc.cfgs += 1;
        // prefixes with a dot, a space and non-ASCII characters for multi-mode configurations
        let prefix = if cfg.modes.len() > 1 { ["P.v2", "pre fix", "Ünï", "P"][i % 4] } else { "P" };
        match check_cfg(cfg, dir.as_ref().unwrap(), prefix, &mut acc.files, i % 2 == 0) {
            Ok(built) => {
                if built && cfg.has_lookahead() {
                    acc.nontrivial += 1;
                }
            }
            Err(e) => acc.viol.add("", || Violation {
                key: String::new(),
                summary: format!("[{fam}] {}: {e}", cfg.show()).chars().take(500).collect(),
                replay: json!({"configuration": cfg.to_json(), "calls": ["build_uncached()", format!("generate_compiled_automata_as_dot({prefix:?}, <empty writable folder>)")], "disagreement": e}),
            }),
        }
        if acc.samples.items.is_empty() && cfg.has_lookahead() {
            acc.samples.push(|| json!({"family": fam, "cfg": cfg.show()}));
        }
    });
    let mut total = Acc { samples: Samples::new(6), ..Default::default() };
    for (a, dir) in accs {
        total.cfgs += a.cfgs;
        total.files += a.files;
        total.nontrivial += a.nontrivial;
        total.viol.merge(a.viol);
        total.samples.merge(a.samples);
        if let Some(d) = dir {
            let _ = std::fs::remove_dir_all(d);
        }
    }
    // fault sequences: targets that cannot be written to
    let mut faults = vec![];
    {
        let dir = scratch_dir("faults");
        let sc = Cfg::single(vec![CPat::new("a", 0)]).build_uncached().unwrap();
        let missing = dir.join("does-not-exist");
        let file = dir.join("a-file");
        std::fs::write(&file, "x").unwrap();
        let parent_missing = dir.join("no-parent").join("child");
        let mut targets: Vec<(&str, PathBuf)> = vec![("missing folder", missing), ("target is a regular file", file), ("parent missing", parent_missing)];
        let ro = dir.join("read-only");
        std::fs::create_dir_all(&ro).unwrap();
        #[cfg(unix)]
        {
            use std::os::unix::fs::PermissionsExt;
            let _ = std::fs::set_permissions(&ro, std::fs::Permissions::from_mode(0o555));
            // root ignores permission bits: only use the case if writing really fails
            if std::fs::write(ro.join("probe"), "x").is_err() {
                targets.push(("read-only folder", ro.clone()));
            } else {
                let _ = std::fs::remove_file(ro.join("probe"));
                faults.push(json!({"target": "read-only folder", "skipped": "the process may write there (running as root)"}));
            }
        }
        for (what, t) in targets {
            total.cfgs += 1;
            let r = catch(|| sc.generate_compiled_automata_as_dot("P", &t));
            let outcome = match &r {
                Err(p) => format!("panic: {p}"),
                Ok(Ok(())) => "Ok".to_string(),
                Ok(Err(_)) => "Err".to_string(),
            };
            faults.push(json!({"target": what, "outcome": outcome}));
            if outcome != "Err" {
                total.viol.add("", || Violation { key: String::new(), summary: format!("unwritable target ({what}): generate_compiled_automata_as_dot returned {outcome}, expected an error"), replay: json!({"target": what, "path": t.display().to_string(), "outcome": outcome}) });
            }
        }
        // the file of ONE mode cannot be created (a directory has its name), for every position of
        // that mode: the call must report it, whatever happens to the other modes' files
        let names = ["FIRST", "MIDDLE", "LAST"];
        let three = Cfg { modes: names.iter().enumerate().map(|(i, n)| CMode { name: n.to_string(), pats: vec![CPat::new("a", i)], transitions: vec![] }).collect() }.build_uncached().unwrap();
        for (k, n) in names.iter().enumerate() {
            total.cfgs += 1;
            let folder = dir.join(format!("blocked-{k}"));
            std::fs::create_dir_all(folder.join(format!("Q_{n}.dot"))).unwrap();
            let r = catch(|| three.generate_compiled_automata_as_dot("Q", &folder));
            let outcome = match &r {
                Err(p) => format!("panic: {p}"),
                Ok(Ok(())) => "Ok".to_string(),
                Ok(Err(_)) => "Err".to_string(),
            };
            let what = format!("a directory named Q_{n}.dot blocks the file of mode {k} of 3");
            faults.push(json!({"target": what, "outcome": outcome}));
            if outcome != "Err" {
                total.viol.add("", || Violation { key: String::new(), summary: format!("unwritable target ({what}): generate_compiled_automata_as_dot returned {outcome}, expected an error"), replay: json!({"target": what, "modes": names, "prefix": "Q", "outcome": outcome}) });
            }
        }
        #[cfg(unix)]
        {
            use std::os::unix::fs::PermissionsExt;
            let _ = std::fs::set_permissions(&ro, std::fs::Permissions::from_mode(0o755));
        }
        let _ = std::fs::remove_dir_all(dir);
    }
    let n_dis = total.viol.total();
    std::mem::take(&mut total.viol).flush(&mut run);
    let mut fam_counts: BTreeMap<String, usize> = BTreeMap::new();
    for (f, _) in &cfgs {
        *fam_counts.entry(f.split(':').next().unwrap().to_string()).or_default() += 1;
    }
    let mut cov = Map::new();
    cov.insert("evaluations".into(), json!(total.cfgs));
    cov.insert("distinct_nontrivial".into(), json!(total.nontrivial));
    cov.insert("rule".into(), json!("one evaluation = one configuration whose DOT files are generated into an empty folder, parsed by a strict parser of the DOT subset (digraph, attribute statements, quoted node ids, edges, subgraph cluster_*, attribute lists, DOT quoting rules) and compared with the automaton dump: file set, node set, accepting labels '<id> T<type>', edge multiset with class ids, one cluster per lookahead with polarity and automaton; non-trivial = the configuration has lookaheads (clusters)"));
    cov.insert("samples".into(), json!(total.samples.items));
    cov.insert("exhaustive".into(), json!(true));
    cov.insert("files_parsed".into(), json!(total.files));
    cov.insert("configurations_by_family".into(), json!(fam_counts));
    cov.insert("fault_sequences".into(), json!(faults));
    cov.insert("disagreeing_configurations".into(), json!(n_dis));
    run.finish(
        "exploration",
        cov,
        &["no Graphviz binary exists in the sandbox; the parser implements the quoting rules of the DOT grammar (\\\" and \\\\ inside quoted strings)", "the text of a class in an edge label is not compared, only its '(C#<id>)' suffix, source and target", "mode names are valid file names and distinct", "every other configuration is exported into the folder as the previous export left it (the export must replace older files), the others into an emptied folder (exact file set)"],
    )
}
