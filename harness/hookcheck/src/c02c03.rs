//! C02 (compiled automaton ≡ pattern languages, all strings) and C03 (minimization preserves the
//! recognised language, all strings) through the E1 product exploration.

use crate::e1::{check_cfg, check_cfg_with, E1Outcome, ProductStats};
use bridge::{CPat, Cfg};
use refsem::evidence::{Run, Samples, Tier, ViolAcc, Violation};
use refsem::families::{g_upto, token_type_variants};
use refsem::par::par_for;
use refsem::sem::AtomTables;
use serde_json::{json, Map, Value};

/// `Sets(k1;k2;k3)` enumerated by index.
pub struct SetsFamily {
    pub g1: Vec<String>,
    pub g2: Vec<String>,
    pub g3: Vec<String>,
}

impl SetsFamily {
    pub fn new(k1: usize, k2: usize, k3: usize) -> Self {
        SetsFamily { g1: g_upto(k1), g2: g_upto(k2), g3: if k3 == 0 { vec![] } else { g_upto(k3) } }
    }
    pub fn len(&self) -> usize {
        self.g1.len() + self.g2.len().pow(2) + self.g3.len().pow(3)
    }
    pub fn get(&self, mut i: usize) -> Vec<&str> {
        if i < self.g1.len() {
            return vec![&self.g1[i]];
        }
        i -= self.g1.len();
        let n2 = self.g2.len();
        if i < n2 * n2 {
            return vec![&self.g2[i / n2], &self.g2[i % n2]];
        }
        i -= n2 * n2;
        let n3 = self.g3.len();
        vec![&self.g3[i / (n3 * n3)], &self.g3[(i / n3) % n3], &self.g3[i % n3]]
    }
}

fn cfg_of(pats: &[&str], tts: &[usize]) -> Cfg {
    Cfg::single(pats.iter().zip(tts.iter()).map(|(p, t)| CPat::new(p, *t)).collect())
}

#[derive(Default)]
struct Acc {
    cfgs: usize,
    built: usize,
    build_errors: usize,
    s02: ProductStats,
    s03: ProductStats,
    pairs03: usize,
    automata02: usize,
    max_blocks: usize,
    viol: ViolAcc,
    samples: Samples,
    capped: usize,
    nontrivial: usize,
}

fn add_stats(a: &mut ProductStats, b: &ProductStats) {
    a.states += b.states;
    a.transitions += b.transitions;
    a.traces_validated += b.traces_validated;
    a.capped |= b.capped;
}

fn absorb(acc: &mut Acc, prop: &str, cfg: &Cfg, family: &str, o: E1Outcome) {
    acc.cfgs += 1;
    if let Some(e) = &o.build_error {
        acc.build_errors += 1;
        // Every configuration of these families is in the supported fragment: a build error here
        // is C15's business, not a language mismatch; it is counted and shown in the evidence.
        acc.samples.push(|| json!({"family": family, "cfg": cfg.show(), "build_error": e}));
        return;
    }
    acc.built += 1;
    add_stats(&mut acc.s02, &o.stats02);
    add_stats(&mut acc.s03, &o.stats03);
    if o.stats02.capped || o.stats03.capped {
        acc.capped += 1;
    }
    acc.pairs03 += o.pairs03;
    acc.automata02 += o.automata02;
    acc.max_blocks = acc.max_blocks.max(o.blocks);
    let states = if prop == "C02" { o.stats02.states } else { o.stats03.states };
    if states > 2 {
        acc.nontrivial += 1;
    }
    let list = if prop == "C02" { o.c02 } else { o.c03 };
    for (where_, m) in list {
        {
            acc.viol.add("", || Violation {
                key: String::new(),
                summary: format!("{} [{}] {}: {} (witness {:?})", cfg.show(), family, where_, m.what, m.witness),
                replay: json!({"family": family, "configuration": cfg.to_json(), "where": where_, "witness_string": m.witness, "disagreement": m.what,
                    "how_to_replay": "build the configuration with ScannerBuilder::build_uncached and scan the witness string; compare with the pattern languages"}),
            });
        }
    }
    if acc.samples.items.len() < 6 && states > 4 {
        acc.samples.push(|| json!({"family": family, "cfg": cfg.show(), "product_states": states, "blocks": o.blocks}));
    }
}

fn merge(into: &mut Acc, from: Acc) {
    into.cfgs += from.cfgs;
    into.built += from.built;
    into.build_errors += from.build_errors;
    add_stats(&mut into.s02, &from.s02);
    add_stats(&mut into.s03, &from.s03);
    into.pairs03 += from.pairs03;
    into.automata02 += from.automata02;
    into.max_blocks = into.max_blocks.max(from.max_blocks);
    into.viol.merge(from.viol);
    into.samples.merge(from.samples);
    into.capped += from.capped;
    into.nontrivial += from.nontrivial;
}

/// The scale sub-family: automata with hundreds of states and more than a handful of classes.
pub fn scale_family() -> Vec<(String, Cfg)> {
    let mut v = vec![];
    v.push(("a{300}b".to_string(), Cfg::single(vec![CPat::new("a{300}b", 0)])));
    v.push(("(ab|c){40}d".to_string(), Cfg::single(vec![CPat::new("(ab|c){40}d", 3)])));
    // 40 keywords of 8 letters over a 12 letter alphabet, deterministic construction
    let letters: Vec<char> = "abcdefghijkl".chars().collect();
    let mut kws = vec![];
    for k in 0..40usize {
        let mut s = String::new();
        let mut x = k * 7919 + 13;
        for _ in 0..8 {
            s.push(letters[x % letters.len()]);
            x = x / letters.len() + k * 31 + 7;
        }
        kws.push(s);
    }
    kws.sort();
    kws.dedup();
    v.push(("keywords40".to_string(), Cfg::single(kws.iter().enumerate().map(|(i, k)| CPat::new(k, i)).collect())));
    v.push(("keywords40+ident".to_string(), Cfg::single(kws.iter().enumerate().map(|(i, k)| CPat::new(k, i + 1)).chain(std::iter::once(CPat::new("[a-z_]\\w*", 0))).collect())));
    // ten distinct literal classes and overlapping ranges
    let ten: Vec<CPat> = "0123456789".chars().enumerate().map(|(i, c)| CPat::new(&format!("{c}x*[0-9]"), i)).collect();
    v.push(("ten-literal-classes".to_string(), Cfg::single(ten)));
    v.push((
        "overlapping-ranges".to_string(),
        Cfg::single(vec![CPat::new("[a-f]+", 0), CPat::new("[d-k]+x", 1), CPat::new("[^a-c]y", 2), CPat::new("[a-z&&[^m-p]]+z", 3), CPat::new("\\d+(\\.\\d+)?", 4), CPat::new("[\\w--\\d]+q", 5), CPat::new(".", 6)]),
    ));
    // 300 alternatives inside one pattern and a long optional chain
    let alts: Vec<String> = (0..300).map(|i| format!("k{:03}", i)).collect();
    v.push(("alt300".to_string(), Cfg::single(vec![CPat::new(&alts.join("|"), 0), CPat::new("k\\d*", 1)])));
    v.push(("opt-chain".to_string(), Cfg::single(vec![CPat::new("(a?){30}b", 0), CPat::new("a{0,40}", 1)])));
    // bounded ranges whose span (number of optional copies, i.e. the size of the closures of the
    // construction) crosses 16, 32, 64, 128 and 256
    for (n, m) in [(0usize, 10usize), (1, 20), (0, 40), (2, 70), (0, 100), (2, 150), (100, 180)] {
        v.push((format!("a{{{n},{m}}}"), Cfg::single(vec![CPat::new(&format!("a{{{n},{m}}}"), 0), CPat::new("[ab]", 1)])));
    }
    v.push(("(ab|c){1,70}d?".to_string(), Cfg::single(vec![CPat::new("(ab|c){1,70}d?", 2), CPat::new("c+", 0)])));
    // more than 256 / 512 patterns, classes, states, groups, transitions of one state
    let chars: Vec<char> = (0x4e00u32..0x4e00 + 700).filter_map(char::from_u32).collect();
    v.push(("300 one-char patterns".to_string(), Cfg::single((0..300).map(|i| CPat::new(&chars[i].to_string(), i)).collect())));
    v.push(("300 two-char patterns sharing the second char".to_string(), Cfg::single((0..300).map(|i| CPat::new(&format!("{}z", chars[i]), i)).collect())));
    v.push(("600 two-char patterns, token types reversed".to_string(), Cfg::single((0..600).map(|i| CPat::new(&format!("{}[yz]", chars[i]), 599 - i)).collect())));
    v.push(("300 patterns, one token type".to_string(), Cfg::single((0..300).map(|i| CPat::new(&format!("{}z", chars[i]), 9)).collect())));
    v.push(("pz, 255 fillers, qz".to_string(), Cfg::single(std::iter::once(CPat::new("pz", 0)).chain((0..255).map(|i| CPat::new(&chars[i].to_string(), i + 1))).chain(std::iter::once(CPat::new("qz", 256))).collect())));
    v.push(("pz, 511 fillers, qz".to_string(), Cfg::single(std::iter::once(CPat::new("pz", 0)).chain((0..511).map(|i| CPat::new(&chars[i].to_string(), i + 1))).chain(std::iter::once(CPat::new("qz", 512))).collect())));
    // 100 keywords of 6 letters with shared prefixes (about 600 states)
    let mut kws = vec![];
    for k in 0..100usize {
        let mut s = String::new();
        let mut x = k;
        for _ in 0..6 {
            s.push(letters[x % 3]);
            x /= 3;
        }
        s.push(letters[3 + k % 5]);
        kws.push(s);
    }
    kws.sort();
    kws.dedup();
    v.push(("keywords100".to_string(), Cfg::single(kws.iter().enumerate().map(|(i, k)| CPat::new(k, i + 256)).collect())));
    // 300 modes
    v.push((
        "300 modes".to_string(),
        Cfg { modes: (0..300).map(|m| bridge::CMode { name: format!("M{m}"), pats: vec![CPat::new(&format!("{}a", chars[m]), m), CPat::new("b+", 1000 + m)], transitions: vec![(m, (m + 1) % 300)] }).collect() },
    ));
    v
}

/// Lookahead sub-family for C02: every lookahead automaton against its pattern.
fn lookahead_family(k: usize) -> Vec<Cfg> {
    let mut las: Vec<String> = g_upto(k);
    // lookahead expressions that match nothing but the empty string (the compiled automaton
    // exists and accepts no string at all), in both polarities each
    for e in ["", "()", "(|)", "a{0}", "()*", "(a{0})+", "(()|())?"] {
        las.push(e.to_string());
        las.push(e.to_string());
    }
    let mut v = vec![];
    for (i, l) in las.iter().enumerate() {
        let positive = i % 2 == 0;
        v.push(Cfg::single(vec![CPat::new("a", 0).with_la(positive, l), CPat::new("[ab]", 1).with_la(!positive, l), CPat::new("b", 2)]));
    }
    v
}

pub fn run(prop: &'static str, tier: Tier) -> ! {
    let mut run = Run::new(prop, tier);
    let mut tables = AtomTables::default();
    if let Err(e) = bridge::tabulate_atoms(&["\\w".to_string()], &mut tables) {
        // The opaque atom cannot even be tabulated through the public API.
        run.violation(Violation { key: String::new(), summary: format!("cannot tabulate \\w through the public API: {e}"), replay: json!({"pattern": "\\w", "error": e}) });
        run.finish("model_checking", Map::new(), &[]);
    }
    let do02 = prop == "C02";
    let do03 = prop == "C03";
    let mut total = Acc { samples: Samples::new(8), ..Default::default() };
    let mut families: Vec<Value> = vec![];

    // 1. Sets(k1;k2;k3)
    let (k1, k2, k3) = match tier {
        Tier::Quick => (4, 3, 1),
        Tier::Thorough => (5, 4, 2),
    };
    let fam = SetsFamily::new(k1, k2, k3);
    let n = fam.len();
    let accs = par_for(
        n,
        256,
        || Acc { samples: Samples::new(2), ..Default::default() },
        |acc, i| {
            let pats = fam.get(i);
            let all_variants = (pats.len() == 2 && fam.g2.len() <= 900) || (pats.len() == 3 && fam.g3.len() <= 7) || pats.len() == 1;
            for tts in token_type_variants(pats.len(), all_variants) {
                let cfg = cfg_of(&pats, &tts);
                let o = check_cfg(&cfg, &tables, do02, do03, do02, true);
                absorb(acc, prop, &cfg, "Sets", o);
            }
        },
    );
    let before = total.cfgs;
    for a in accs {
        merge(&mut total, a);
    }
    families.push(json!({"family": format!("Sets({k1};{k2};{k3}) x token type variants"), "pattern_sets": n, "configurations": total.cfgs - before, "exhaustive": true}));

    // 1b. thorough: one additional block of the pairs over G(4) x G(4), rotated by VERIF_SEED; the
    // block is enumerated completely and reported as its own bound
    if tier == Tier::Thorough {
        let g4 = g_upto(5);
        let total_pairs = g4.len() * g4.len();
        let block = 2_000_000usize.min(total_pairs);
        let start = (run.seed as usize).wrapping_mul(block) % total_pairs;
        let accs = par_for(block, 512, || Acc { samples: Samples::new(1), ..Default::default() }, |acc, k| {
            let idx = (start + k) % total_pairs;
            let pats = [g4[idx / g4.len()].as_str(), g4[idx % g4.len()].as_str()];
            let cfg = cfg_of(&pats, &[1, 0]);
            let o = check_cfg(&cfg, &tables, do02, do03, do02, true);
            absorb(acc, prop, &cfg, "G5-pairs-block", o);
        });
        for a in accs {
            merge(&mut total, a);
        }
        families.push(json!({"family": "block of ordered pairs over G(5) x G(5) (token types reversed)", "block_start_index": start, "block_size": block, "of_total_pairs": total_pairs, "selected_by": "VERIF_SEED (rotation only; the block is enumerated completely)"}));
    }

    // 2. lookahead automata
    let lk = match tier {
        Tier::Quick => 3,
        Tier::Thorough => 4,
    };
    let lf = lookahead_family(lk);
    let accs = par_for(lf.len(), 16, || Acc { samples: Samples::new(1), ..Default::default() }, |acc, i| {
        let o = check_cfg(&lf[i], &tables, do02, do03, false, true);
        absorb(acc, prop, &lf[i], "lookahead", o);
    });
    for a in accs {
        merge(&mut total, a);
    }
    families.push(json!({"family": format!("lookahead automata: every pattern of G({lk}) and seven spellings of the empty expression as positive/negative lookahead"), "configurations": lf.len(), "exhaustive": true}));

    // 3. scale sub-family
    let sf = scale_family();
    let mut keys = vec![];
    for (_, c) in &sf {
        keys.extend(c.atom_keys());
    }
    let cor = bridge::corpora(true);
    for (_, c, _) in &cor {
        keys.extend(c.atom_keys());
    }
    keys.sort();
    keys.dedup();
    if let Err(e) = bridge::tabulate_atoms(&keys, &mut tables) {
        refsem::evidence::machinery(&format!("cannot tabulate atoms of the corpora: {e}"));
    }
    let accs = par_for(sf.len(), 1, || Acc { samples: Samples::new(2), ..Default::default() }, |acc, i| {
        let o = check_cfg(&sf[i].1, &tables, do02, do03, do02, false);
        absorb(acc, prop, &sf[i].1, &format!("scale:{}", sf[i].0), o);
    });
    for a in accs {
        merge(&mut total, a);
    }
    families.push(json!({"family": "scale (hundreds of states, many classes)", "configurations": sf.iter().map(|s| s.0.clone()).collect::<Vec<_>>()}));

    // 3z. several modes over the same regex texts: the same list with other token types, the same
    // list in another order, a prefix of it, and the same list with one lookahead added - every
    // mode's automaton has to be its own
    {
        let g2 = refsem::families::g_upto(2);
        let mut cfgs = vec![];
        for (i, p) in g2.iter().enumerate() {
            let q = &g2[(i * 7 + 3) % g2.len()];
            let r = &g2[(i * 11 + 5) % g2.len()];
            let m = |name: &str, pats: Vec<CPat>| bridge::CMode { name: name.into(), pats, transitions: vec![] };
            cfgs.push(Cfg {
                modes: vec![
                    m("A", vec![CPat::new(p, 1), CPat::new(q, 2), CPat::new(r, 0)]),
                    m("B", vec![CPat::new(p, 7), CPat::new(q, 9), CPat::new(r, 8)]),
                    m("C", vec![CPat::new(q, 1), CPat::new(p, 2), CPat::new(r, 0)]),
                    m("D", vec![CPat::new(p, 1), CPat::new(q, 2)]),
                    m("E", vec![CPat::new(p, 1), CPat::new(q, 2).with_la(false, "a"), CPat::new(r, 0)]),
                    m("F", vec![CPat::new(p, 2), CPat::new(q, 2), CPat::new(r, 2)]),
                ],
            });
        }
        let accs = par_for(cfgs.len(), 2, || Acc { samples: Samples::new(1), ..Default::default() }, |acc, i| {
            let o = check_cfg(&cfgs[i], &tables, do02, do03, do02, true);
            absorb(acc, prop, &cfgs[i], "same-regex-modes", o);
        });
        for a in accs {
            merge(&mut total, a);
        }
        families.push(json!({"family": "six modes over the same three regex texts (one triple per pattern of G(2)): other token types, other order, a prefix, one lookahead added, one token type for all", "configurations": cfgs.len(), "exhaustive": true}));
    }

    // 3a. repetition shapes
    {
        let shapes = refsem::families::repetition_shapes();
        let accs = par_for(shapes.len(), 8, || Acc { samples: Samples::new(1), ..Default::default() }, |acc, i| {
            let cfg = Cfg::single(vec![CPat::new(&shapes[i], 0), CPat::new("[abxy]", 1)]);
            let o = check_cfg(&cfg, &tables, do02, do03, do02, true);
            absorb(acc, prop, &cfg, "repetition-shapes", o);
        });
        for a in accs {
            merge(&mut total, a);
        }
        families.push(json!({"family": "repetition shapes: (inner)rep for 5 inner patterns x {*,+,?,{m},{m,},{m,n} | 0<=m<=n<=3} x 7 contexts", "configurations": shapes.len(), "exhaustive": true}));
    }

    // 3a'. branching family: every ordered pair of branch patterns as one alternation (one token
    // type), as two patterns with distinct and with equal token types
    {
        let br = refsem::families::branch_patterns();
        let n = br.len() * br.len();
        let accs = par_for(n, 64, || Acc { samples: Samples::new(1), ..Default::default() }, |acc, i| {
            let (p, q) = (&br[i / br.len()], &br[i % br.len()]);
            if p == q {
                return;
            }
            let variants = [
                Cfg::single(vec![CPat::new(&format!("{p}|{q}"), 3)]),
                Cfg::single(vec![CPat::new(p, 0), CPat::new(q, 1)]),
                Cfg::single(vec![CPat::new(p, 4), CPat::new(q, 4), CPat::new("[abxyz]", 0)]),
            ];
            for cfg in &variants {
                let o = check_cfg(cfg, &tables, do02, do03, do02, true);
                absorb(acc, prop, cfg, "branches", o);
            }
        });
        for a in accs {
            merge(&mut total, a);
        }
        families.push(json!({"family": "branching: all ordered pairs of prefix+body patterns (prefix a|b; bodies s, (s)*, (s)+, (s|t), (s|t)*, (s)*t over 6 short strings) as `P|Q`, as two patterns with distinct token types and as two patterns sharing one token type", "branch_patterns": br.len(), "pairs": n, "exhaustive": true}));
    }

    // 3b. class pairs: every ordered pair of near-identical class atoms in one scanner
    {
        let menu = refsem::families::class_menu();
        let all = Cfg::single(menu.iter().enumerate().map(|(i, c)| CPat::new(c, i)).collect());
        let mut mkeys = all.atom_keys();
        mkeys.sort();
        if let Err(e) = bridge::tabulate_atoms(&mkeys, &mut tables) {
            refsem::evidence::machinery(&format!("cannot tabulate atoms of the class menu: {e}"));
        }
        // one partition for the whole menu (reference denotations of every atom + implementation
        // predicates of the all-menu scanner); per scanner the predicates are re-evaluated on the
        // representatives
        let spec_all = all.to_spec().expect("menu parses");
        let regs: Vec<&refsem::sem::Regex> = spec_all[0].patterns.iter().map(|p| &p.regex).collect();
        let blocks = match bridge::catch(|| all.build_uncached()) {
            Ok(Ok(sc)) => {
                let d = sc.verif_dump();
                Some(crate::e1::blocks_for(&sc, &d, &regs, &tables, false))
            }
            _ => None,
        };
        let mut cfgs = vec![];
        for x in &menu {
            for y in &menu {
                cfgs.push(Cfg::single(vec![CPat::new(&format!("({x})+"), 0), CPat::new(&format!("({y})+"), 1), CPat::new(&format!("({x})({y})"), 2)]));
                cfgs.push(Cfg {
                    modes: vec![
                        bridge::CMode { name: "A".into(), pats: vec![CPat::new(x, 0)], transitions: vec![(0, 1)] },
                        bridge::CMode { name: "B".into(), pats: vec![CPat::new(&format!("({y})+"), 0).with_la(true, x), CPat::new(y, 1).with_la(false, y)], transitions: vec![(0, 0)] },
                    ],
                });
            }
        }
        match blocks {
            None => {
                total.build_errors += 1;
            }
            Some(blocks) => {
                let accs = par_for(cfgs.len(), 8, || Acc { samples: Samples::new(1), ..Default::default() }, |acc, i| {
                    let o = check_cfg_with(&cfgs[i], &tables, do02, do03, do02, false, Some(blocks.clone()));
                    absorb(acc, prop, &cfgs[i], "class-pairs", o);
                });
                for a in accs {
                    merge(&mut total, a);
                }
            }
        }
        families.push(json!({"family": "class pairs: every ordered pair of a menu of near-identical one-character classes (polarity, order, escaping, nesting, named classes) in one mode and spread over two modes and lookaheads", "menu": menu, "configurations": cfgs.len(), "exhaustive": true}));
    }

    // 4. corpora
    let accs = par_for(cor.len(), 1, || Acc { samples: Samples::new(2), ..Default::default() }, |acc, i| {
        let o = check_cfg(&cor[i].1, &tables, do02, do03, do02, false);
        absorb(acc, prop, &cor[i].1, &format!("corpus:{}", cor[i].0), o);
    });
    for a in accs {
        merge(&mut total, a);
    }
    families.push(json!({"family": "repository corpora (tests/data/*.json, benches/veryl_modes.json)", "configurations": cor.iter().map(|s| s.0.clone()).collect::<Vec<_>>()}));

    let n_disagreeing = total.viol.total();
    std::mem::take(&mut total.viol).flush(&mut run);
    let stats = if do02 { &total.s02 } else { &total.s03 };
    let mut cov = Map::new();
    cov.insert("states".into(), json!(stats.states));
    cov.insert("transitions".into(), json!(stats.transitions));
    cov.insert("traces_validated_against_impl".into(), json!(if do02 { total.s02.traces_validated } else { total.s03.traces_validated }));
    cov.insert("samples".into(), json!(total.samples.items));
    cov.insert("evaluations".into(), json!(total.cfgs));
    cov.insert("distinct_nontrivial".into(), json!(total.nontrivial));
    cov.insert("rule".into(), json!("one evaluation = one configuration built with build_uncached and decided for ALL strings by closing the product over the block alphabet; non-trivial = product with more than 2 reachable states"));
    cov.insert("exhaustive".into(), json!(total.capped == 0));
    cov.insert("configurations".into(), json!(total.cfgs));
    cov.insert("configurations_built".into(), json!(total.built));
    cov.insert("build_errors".into(), json!(total.build_errors));
    cov.insert("families".into(), json!(families));
    cov.insert("max_blocks_of_alphabet_partition".into(), json!(total.max_blocks));
    cov.insert("products_capped".into(), json!(total.capped));
    cov.insert("disagreeing_automata".into(), json!(n_disagreeing));
    if do02 {
        cov.insert("automata_checked".into(), json!(total.automata02));
    } else {
        cov.insert("minimizer_pairs_checked".into(), json!(total.pairs03));
    }
    let assumptions: &[&str] = if do02 {
        &[
            "regex-syntax's parser is shared with scnr and trusted",
            "named class atoms are opaque: their tables are tabulated through scnr's public API (C08 checks them)",
            "per class text the implementation predicate is tabulated on all scalars once and re-evaluated on the block representatives for every scanner",
            "the dump hook is validated by scanning every BFS witness with the real scanner (lookahead-free modes)",
        ]
    } else {
        &["the recorder hook wraps the unchanged body of Minimizer::minimize; pairs are compared over the block alphabet of the final class registry", "traces_validated_against_impl counts the recorded minimizer outputs that appear verbatim in the automata dump of the built scanner (binding of the recorder to what the scanner uses)"]
    };
    run.finish("model_checking", cov, assumptions)
}
