//! E3 `histcheck`: explicit-state BFS over call histories of the real iterator. A state is reached
//! by replaying its shortest history on a fresh iterator; every transition calls the real method and
//! is compared with the iterator model of DESIGN.md §4.4; states are deduplicated by the snapshot of
//! the real fields (hook H3) together with the model state. The search runs to closure.

use bridge::{catch, Cfg};
use refsem::model::{MState, ModeSpec, ScanTable};
use scnr::verif::IterState;
use scnr::{FindMatches, MatchExtIterator, PeekResult, PositionProvider, Scanner, ScannerModeSwitcher, WithPositions};
use serde_json::{json, Value};
use std::collections::{HashMap, VecDeque};

#[derive(Clone, Copy, Debug, PartialEq, Eq, Hash)]
pub enum Op {
    Next,
    Peek(usize),
    /// `peek_n(k + 1)`, then `advance_to(end of the k-th peeked match)` if there is one
    AdvPeek(usize),
    SetOffset(usize),
    /// `it = it.with_offset(o)` on the live iterator (bare iterator only)
    WithOffset(usize),
    SetMode(usize),
}

impl Op {
    pub fn show(&self) -> String {
        match self {
            Op::Next => "next()".into(),
            Op::Peek(n) => format!("peek_n({n})"),
            Op::AdvPeek(k) => format!("advance_to(end of match #{k} of peek_n({}))", k + 1),
            Op::SetOffset(o) => format!("set_offset({o})"),
            Op::WithOffset(o) => format!("with_offset({o})"),
            Op::SetMode(m) => format!("set_mode({m})"),
        }
    }
    pub fn is_reset(&self) -> bool {
        matches!(self, Op::SetOffset(_) | Op::WithOffset(_) | Op::AdvPeek(_))
    }
}

#[derive(Clone, Copy, Debug, PartialEq, Eq)]
pub enum Offsets {
    None,
    /// only offsets inside the contiguously scanned prefix (C09)
    Scanned,
    /// every character boundary and |x|+1 (C10)
    All,
}

#[derive(Clone, Debug)]
pub struct OpSet {
    pub next: bool,
    /// `peek_n` arguments; `usize::MAX` stands for |x|+1
    pub peeks: Vec<usize>,
    pub adv: Vec<usize>,
    pub offsets: Offsets,
    pub set_modes: bool,
    /// drive `WithPositions<FindMatches>` instead of the bare iterator (no peek/advance then)
    pub with_positions: bool,
    /// compare `position(o)` for every boundary `o <= cov` in every state
    pub positions: bool,
    /// also drive `it = it.with_offset(o)` on the live iterator for every boundary
    pub with_offset_ops: bool,
}

#[derive(Clone, Debug, PartialEq, Eq, Hash, PartialOrd, Ord)]
pub enum Kind {
    Panic,
    Next,
    Peek,
    PeekImpure,
    Mode,
    Position,
    TokenPosition,
    QueryImpure,
}

#[derive(Clone, Debug)]
pub struct Disagreement {
    pub kind: Kind,
    pub detail: String,
    pub history: Vec<Op>,
    /// the op at which the disagreement showed
    pub at: Op,
}

impl Disagreement {
    pub fn history_has_reset(&self) -> bool {
        self.history.iter().any(|o| o.is_reset()) || self.at.is_reset()
    }
    pub fn history_has_peek(&self) -> bool {
        self.history.iter().any(|o| matches!(o, Op::Peek(_) | Op::AdvPeek(_)))
    }
    pub fn replay(&self, cfg: &Cfg, input: &str, with_positions: bool) -> Value {
        json!({
            "configuration": cfg.to_json(),
            "input": input,
            "iterator": if with_positions { "scanner.find_iter(input).with_positions()" } else { "scanner.find_iter(input)" },
            "history": self.history.iter().map(|o| o.show()).collect::<Vec<_>>(),
            "then": self.at.show(),
            "kind": format!("{:?}", self.kind),
            "disagreement": self.detail,
        })
    }
}

enum It<'h> {
    Bare(Option<FindMatches<'h>>),
    Pos(WithPositions<FindMatches<'h>>),
}

type Tok = (usize, usize, usize);
type TokPos = (Tok, Option<((usize, usize), (usize, usize))>);

impl<'h> It<'h> {
    fn new(sc: &Scanner, input: &'h str, with_positions: bool) -> It<'h> {
        if with_positions {
            It::Pos(sc.find_iter(input).with_positions())
        } else {
            It::Bare(Some(sc.find_iter(input)))
        }
    }
    fn state(&self) -> IterState {
        match self {
            It::Bare(i) => i.as_ref().unwrap().verif_state(),
            It::Pos(i) => i.verif_inner().verif_state(),
        }
    }
    fn next(&mut self) -> Option<TokPos> {
        match self {
            It::Bare(i) => i.as_mut().unwrap().next().map(|m| (bridge::tok(&m), None)),
            It::Pos(i) => i.next().map(|m| {
                (bridge::tok_ext(&m), Some(((m.start_position().line, m.start_position().column), (m.end_position().line, m.end_position().column))))
            }),
        }
    }
    fn set_offset(&mut self, o: usize) {
        match self {
            It::Bare(i) => i.as_mut().unwrap().set_offset(o),
            It::Pos(i) => i.set_offset(o),
        }
    }
    fn with_offset(&mut self, o: usize) {
        match self {
            It::Bare(i) => {
                let it = i.take().unwrap();
                *i = Some(it.with_offset(o));
            }
            It::Pos(i) => i.set_offset(o),
        }
    }
    fn set_mode(&mut self, m: usize) {
        match self {
            It::Bare(i) => i.as_mut().unwrap().set_mode(m),
            It::Pos(i) => i.set_mode(m),
        }
    }
    fn current_mode(&self) -> usize {
        match self {
            It::Bare(i) => i.as_ref().unwrap().current_mode(),
            It::Pos(i) => i.current_mode(),
        }
    }
    fn position(&self, o: usize) -> (usize, usize) {
        let p = match self {
            It::Bare(i) => i.as_ref().unwrap().position(o),
            It::Pos(i) => i.position(o),
        };
        (p.line, p.column)
    }
    fn bare(&mut self) -> &mut FindMatches<'h> {
        match self {
            It::Bare(i) => i.as_mut().unwrap(),
            It::Pos(_) => panic!("peek/advance are only driven on the bare iterator"),
        }
    }
}

fn same_ignoring_scratch(a: &IterState, b: &IterState) -> bool {
    a.offset == b.offset && a.last_position == b.last_position && a.last_char == b.last_char && a.line_offsets == b.line_offsets && a.remaining == b.remaining && a.current_mode == b.current_mode
}

#[derive(Clone, Debug)]
enum PeekOut {
    Matches(Vec<Tok>),
    ReachedEnd(Vec<Tok>),
    ModeSwitch(Vec<Tok>, usize),
    NotFound,
}

fn conv(p: PeekResult) -> PeekOut {
    let t = |v: Vec<scnr::Match>| v.iter().map(bridge::tok).collect::<Vec<_>>();
    match p {
        PeekResult::Matches(v) => PeekOut::Matches(t(v)),
        PeekResult::MatchesReachedEnd(v) => PeekOut::ReachedEnd(t(v)),
        PeekResult::MatchesReachedModeSwitch((v, m)) => PeekOut::ModeSwitch(t(v), m),
        PeekResult::NotFound => PeekOut::NotFound,
    }
}

impl PeekOut {
    fn toks(&self) -> &[Tok] {
        match self {
            PeekOut::Matches(v) | PeekOut::ReachedEnd(v) | PeekOut::ModeSwitch(v, _) => v,
            PeekOut::NotFound => &[],
        }
    }
}

pub struct Ctx<'a> {
    /// histories up to this length are all expanded without deduplication (immune to a snapshot
    /// that misses a newly added field); beyond it the search closes with deduplication
    pub stateless_depth: usize,
    /// include the simulation scratch buffers in the deduplication key (finer, slower)
    pub key_with_scratch: bool,
    pub cfg: &'a Cfg,
    pub spec: &'a [ModeSpec],
    pub sc: &'a Scanner,
    pub input: &'a str,
    pub table: &'a ScanTable,
    pub ops: &'a OpSet,
}

/// Compares a `next()` result with the model and commits it.
fn check_next(ctx: &Ctx, st: &mut MState, r: &Option<TokPos>) -> Option<(Kind, String)> {
    let t = ctx.table;
    match r {
        None => {
            if let Some(p) = st.predict_next(t) {
                return Some((Kind::Next, format!("next() returned None, expected a token of type {} starting at byte {}", p.adm.token_type, t.byte_of[p.start])));
            }
            st.commit_none(t);
            None
        }
        Some(((tt, s, e), pos)) => {
            let (sc_, ec_) = match (t.char_of_byte(*s), t.char_of_byte(*e)) {
                (Some(a), Some(b)) if a < b => (a, b),
                _ => return Some((Kind::Next, format!("next() returned ({tt},{s}..{e}): empty span or not on character boundaries"))),
            };
            match st.predict_next(t) {
                None => Some((Kind::Next, format!("next() returned ({tt},{s}..{e}), expected None (no pattern of mode {} matches from byte {})", st.m, t.byte_of[st.c]))),
                Some(p) => {
                    if p.start != sc_ || p.adm.token_type != *tt || p.adm.ends >> ec_ & 1 == 0 {
                        return Some((Kind::Next, format!("next() returned ({tt},{s}..{e}), expected type {} at {}..{:?}", p.adm.token_type, t.byte_of[p.start], ends_bytes(t, p.adm.ends))));
                    }
                    let was_contiguous = st.c <= st.cov;
                    st.commit_next(ctx.spec, ec_, *tt);
                    if let Some((sp, ep)) = pos {
                        if was_contiguous {
                            let ts = t.true_position(*s);
                            if *sp != ts {
                                return Some((Kind::TokenPosition, format!("token ({tt},{s}..{e}) delivered with start position {sp:?}, the start offset is at line/column {ts:?}")));
                            }
                            let te = t.true_position(*e);
                            if *ep != te && Some(*ep) != t.lenient_position(*e) {
                                return Some((Kind::TokenPosition, format!("token ({tt},{s}..{e}) delivered with end position {ep:?}, the end offset is at {te:?}{}", t.lenient_position(*e).map(|l| format!(" (or {l:?})")).unwrap_or_default())));
                            }
                        }
                    }
                    None
                }
            }
        }
    }
}

fn ends_bytes(t: &ScanTable, mut ends: u64) -> Vec<usize> {
    let mut v = vec![];
    while ends != 0 {
        let e = ends.trailing_zeros() as usize;
        ends &= ends - 1;
        v.push(t.byte_of[e]);
    }
    v
}

/// Compares a `peek_n(n)` result with the model (state unchanged).
fn check_peek(ctx: &Ctx, st: &MState, n: usize, out: &PeekOut) -> Option<String> {
    let t = ctx.table;
    let mut c = st.c;
    let toks = out.toks();
    let mut switch: Option<usize> = None;
    for (i, (tt, s, e)) in toks.iter().enumerate() {
        if i >= n {
            return Some(format!("peek_n({n}) returned more than n matches: {out:?}"));
        }
        if switch.is_some() {
            return Some(format!("peek_n({n}) continued after a token that triggers a mode switch: {out:?}"));
        }
        let (sc_, ec_) = match (t.char_of_byte(*s), t.char_of_byte(*e)) {
            (Some(a), Some(b)) if a < b => (a, b),
            _ => return Some(format!("peek_n({n}) returned a span that is empty or not on character boundaries: {out:?}")),
        };
        match t.next_token_pos(st.m, c) {
            None => return Some(format!("peek_n({n}) returned {out:?}; next() would deliver no token #{i}")),
            Some((start, adm)) => {
                if start != sc_ || adm.token_type != *tt || adm.ends >> ec_ & 1 == 0 {
                    return Some(format!("peek_n({n}) returned {out:?}; next() would deliver type {} at {}..{:?} as match #{i}", adm.token_type, t.byte_of[start], ends_bytes(t, adm.ends)));
                }
            }
        }
        c = ec_;
        switch = ctx.spec[st.m].transition(*tt);
    }
    // classification
    let more = switch.is_none() && toks.len() < n && t.next_token_pos(st.m, c).is_some();
    if more {
        let (start, adm) = t.next_token_pos(st.m, c).unwrap();
        return Some(format!("peek_n({n}) returned {out:?} and stopped early; next() would deliver a further token of type {} at byte {}", adm.token_type, t.byte_of[start]));
    }
    let ok = match out {
        PeekOut::NotFound => toks.is_empty() && n > 0,
        PeekOut::Matches(v) => v.len() == n,
        PeekOut::ReachedEnd(v) => !v.is_empty() && v.len() < n && switch.is_none(),
        PeekOut::ModeSwitch(v, target) => !v.is_empty() && switch == Some(*target),
    };
    // a switch triggered by the last token must be reported unless exactly n matches were asked for
    let must_switch = switch.is_some() && toks.len() < n;
    if !ok || (must_switch && !matches!(out, PeekOut::ModeSwitch(..))) {
        return Some(format!("peek_n({n}) classified its result as {out:?}; matches {} of {n}, mode switch by the last match: {switch:?}", toks.len()));
    }
    None
}

/// Applies `op` to the iterator without any comparison (replay of an already checked history).
fn apply_plain(it: &mut It, op: Op, input_len: usize) {
    match op {
        Op::Next => {
            it.next();
        }
        Op::Peek(n) => {
            let n = peek_arg(n, input_len);
            it.bare().peek_n(n);
        }
        Op::AdvPeek(k) => {
            let out = conv(it.bare().peek_n(k + 1));
            if let Some(t) = out.toks().get(k) {
                it.bare().advance_to(t.2);
            }
        }
        Op::SetOffset(o) => it.set_offset(o),
        Op::WithOffset(o) => it.with_offset(o),
        Op::SetMode(m) => it.set_mode(m),
    }
}

/// `usize::MAX` in an op set stands for |x|+1, `usize::MAX - 1` for the literal `usize::MAX`
/// ("everything that is left").
pub fn peek_arg(n: usize, input_len: usize) -> usize {
    if n == usize::MAX {
        input_len + 1
    } else if n == usize::MAX - 1 {
        usize::MAX
    } else {
        n
    }
}

pub struct Explored {
    pub states: usize,
    pub transitions: usize,
    pub max_depth: usize,
    pub disagreements: Vec<Disagreement>,
    pub capped: bool,
    /// histories in which a reset or explicit mode switch changed what next() returned afterwards
    pub distinct_next_results: usize,
    pub peek_classes: [usize; 4],
}

pub const STATE_CAP: usize = 60_000;

/// BFS to closure over the histories of `ctx.ops` on one (configuration, input).
pub fn explore(ctx: &Ctx) -> Explored {
    let t = ctx.table;
    let n_modes = ctx.spec.len();
    let input_len = ctx.input.len();
    let mut out = Explored { states: 0, transitions: 0, max_depth: 0, disagreements: vec![], capped: false, distinct_next_results: 0, peek_classes: [0; 4] };
    let mut next_results: std::collections::HashSet<Option<Tok>> = Default::default();

    let init_state = match catch(|| It::new(ctx.sc, ctx.input, ctx.ops.with_positions).state()) {
        Ok(s) => s,
        Err(p) => {
            out.disagreements.push(Disagreement { kind: Kind::Panic, detail: format!("find_iter panicked: {p}"), history: vec![], at: Op::Next });
            return out;
        }
    };
    let mut seen: HashMap<(IterState, MState), ()> = HashMap::new();
    let mut queue: VecDeque<(Vec<Op>, MState)> = VecDeque::new();
    let mut init_state = init_state;
    if !ctx.key_with_scratch {
        init_state.scratch.clear();
    }
    seen.insert((init_state, MState::initial()), ());
    queue.push_back((vec![], MState::initial()));
    // the initial state's observations are checked as part of the first transitions
    while let Some((hist, mst)) = queue.pop_front() {
        out.max_depth = out.max_depth.max(hist.len());
        // the op alphabet in this state
        let mut ops: Vec<Op> = vec![];
        if ctx.ops.next {
            ops.push(Op::Next);
        }
        for &n in &ctx.ops.peeks {
            ops.push(Op::Peek(n));
        }
        for &k in &ctx.ops.adv {
            ops.push(Op::AdvPeek(k));
        }
        if ctx.ops.set_modes {
            for m in 0..n_modes {
                if m != mst.m {
                    ops.push(Op::SetMode(m));
                }
            }
        }
        match ctx.ops.offsets {
            Offsets::None => {}
            Offsets::Scanned => {
                for ci in 0..=mst.cov.min(t.n_chars()) {
                    ops.push(Op::SetOffset(t.byte_of[ci]));
                }
            }
            Offsets::All => {
                for ci in 0..=t.n_chars() {
                    ops.push(Op::SetOffset(t.byte_of[ci]));
                }
                ops.push(Op::SetOffset(input_len + 1));
                if !ctx.ops.with_positions && ctx.ops.with_offset_ops {
                    // the consuming builder form on the live iterator
                    for ci in 0..=t.n_chars() {
                        ops.push(Op::WithOffset(t.byte_of[ci]));
                    }
                }
            }
        }
        for op in ops {
            out.transitions += 1;
            let mut st = mst;
            let r = catch(|| {
                let mut it = It::new(ctx.sc, ctx.input, ctx.ops.with_positions);
                for h in &hist {
                    apply_plain(&mut it, *h, input_len);
                }
                let before = it.state();
                let mut dis: Option<(Kind, String)> = None;
                let mut next_result: Option<Option<Tok>> = None;
                let mut peek_class: Option<usize> = None;
                match op {
                    Op::Next => {
                        let r = it.next();
                        next_result = Some(r.as_ref().map(|x| x.0));
                        dis = check_next(ctx, &mut st, &r);
                    }
                    Op::Peek(n) => {
                        let n = peek_arg(n, input_len);
                        let o = conv(it.bare().peek_n(n));
                        peek_class = Some(match o {
                            PeekOut::Matches(_) => 0,
                            PeekOut::ReachedEnd(_) => 1,
                            PeekOut::ModeSwitch(..) => 2,
                            PeekOut::NotFound => 3,
                        });
                        if let Some(d) = check_peek(ctx, &st, n, &o) {
                            dis = Some((Kind::Peek, d));
                        } else if !same_ignoring_scratch(&before, &it.state()) {
                            dis = Some((Kind::PeekImpure, format!("peek_n({n}) changed the iterator state: before {before:?}, after {:?}", it.state())));
                        }
                    }
                    Op::AdvPeek(k) => {
                        let o = conv(it.bare().peek_n(k + 1));
                        if let Some(d) = check_peek(ctx, &st, k + 1, &o) {
                            dis = Some((Kind::Peek, d));
                        } else if let Some(tk) = o.toks().get(k) {
                            it.bare().advance_to(tk.2);
                            st.advance_to(t.char_of_byte(tk.2).unwrap());
                        }
                    }
                    Op::SetOffset(o) => {
                        it.set_offset(o);
                        st.set_offset(t.char_of_byte(o.min(input_len)).unwrap());
                    }
                    Op::WithOffset(o) => {
                        it.with_offset(o);
                        st.set_offset(t.char_of_byte(o.min(input_len)).unwrap());
                    }
                    Op::SetMode(m) => {
                        it.set_mode(m);
                        st.m = m;
                    }
                }
                // observations in the state reached
                let after = it.state();
                if dis.is_none() {
                    let cm = it.current_mode();
                    if cm != st.m {
                        dis = Some((Kind::Mode, format!("current_mode() is {cm}, expected {}", st.m)));
                    }
                }
                if dis.is_none() && ctx.ops.positions {
                    for ci in 0..=st.cov.min(t.n_chars()) {
                        let o = t.byte_of[ci];
                        let got = it.position(o);
                        let want = t.true_position(o);
                        if got != want && Some(got) != t.lenient_position(o) {
                            dis = Some((Kind::Position, format!("position({o}) is {got:?}, the offset is at line/column {want:?}{}", t.lenient_position(o).map(|l| format!(" (or {l:?})")).unwrap_or_default())));
                            break;
                        }
                    }
                    if dis.is_none() && !same_ignoring_scratch(&after, &it.state()) {
                        dis = Some((Kind::QueryImpure, "position()/current_mode() changed the iterator state".into()));
                    }
                }
                (after, dis, next_result, peek_class)
            });
            match r {
                Err(p) => {
                    out.disagreements.push(Disagreement { kind: Kind::Panic, detail: format!("{} panicked: {p}", op.show()), history: hist.clone(), at: op });
                }
                Ok((after, dis, next_result, peek_class)) => {
                    if let Some(nr) = next_result {
                        next_results.insert(nr);
                    }
                    if let Some(pc) = peek_class {
                        out.peek_classes[pc] += 1;
                    }
                    if let Some((kind, detail)) = dis {
                        out.disagreements.push(Disagreement { kind, detail, history: hist.clone(), at: op });
                        continue;
                    }
                    let mut after = after;
                    if !ctx.key_with_scratch {
                        // The scratch buffers are cleared at the start of every match attempt; the
                        // quick tier relies on that and merges states that differ only there.
                        after.scratch.clear();
                    }
                    let key = (after, st);
                    if !seen.contains_key(&key) || hist.len() < ctx.stateless_depth {
                        if seen.len() >= STATE_CAP {
                            out.capped = true;
                            continue;
                        }
                        seen.insert(key, ());
                        let mut h2 = hist.clone();
                        h2.push(op);
                        queue.push_back((h2, st));
                    }
                }
            }
            if out.disagreements.len() >= 8 {
                out.states = seen.len();
                out.distinct_next_results = next_results.len();
                return out;
            }
        }
    }
    out.states = seen.len();
    out.distinct_next_results = next_results.len();
    out
}
