//! C17: large automata compile correctly or not at all. Instances are built through the public API
//! (an error is an acceptable outcome); a scanner that builds is decided for ALL strings by the E1
//! product on its dump, its minimizer pairs are checked for equivalence, and the inputs the property
//! names are scanned for real.

use crate::e1::{analyse_built, E1Outcome};
use bridge::{catch, CPat, Cfg};
use refsem::evidence::{Run, Samples, Tier, ViolAcc, Violation};
use refsem::par::par_for;
use refsem::sem::AtomTables;
use serde_json::{json, Map};
use std::sync::Mutex;

struct Instance {
    name: String,
    cfg: Cfg,
    /// `(input, expected token stream)`; expectations follow from the construction of the instance
    probes: Vec<(String, Vec<(usize, usize, usize)>)>,
    /// rough number of states of the unminimized automaton
    states: usize,
}

fn rep_instance(n: usize, tail: &str) -> Instance {
    // a{n}<tail>: accepted input has exactly n a's followed by the tail
    let pat = format!("a{{{n}}}{tail}");
    let t = tail.len();
    let full = format!("{}{}", "a".repeat(n), tail);
    let mut probes = vec![(full.clone(), vec![(7, 0, n + t)])];
    probes.push((format!("{}{}", "a".repeat(n - 1), tail), vec![]));
    if tail.is_empty() {
        // one more a: the first n form a token, the rest does not
        probes.push(("a".repeat(n + 1), vec![(7, 0, n)]));
        probes.push(("a".repeat(2 * n), vec![(7, 0, n), (7, n, 2 * n)]));
    } else {
        // one a too many in front: skipping one character makes it match
        probes.push((format!("{}{}", "a".repeat(n + 1), tail), vec![(7, 1, n + 1 + t)]));
    }
    if n > 1024 {
        probes.push((format!("{}{}", "a".repeat(n - 1024), tail), vec![]));
    }
    if n > 65_536 {
        probes.push((format!("{}{}", "a".repeat(n - 65_536), tail), vec![]));
    }
    Instance { name: pat.clone(), cfg: Cfg::single(vec![CPat::new(&pat, 7)]), probes, states: n + t + 1 }
}

fn range_instance(n: usize, m: usize) -> Instance {
    // a{n,m}: runs of n..m a's are one token, longer runs are cut after m, shorter ones match nothing
    let pat = format!("a{{{n},{m}}}");
    let mut lens = vec![n.saturating_sub(1), n, n + 1, (n + m) / 2, m.saturating_sub(22), m - 1, m, m + 1, 2 * m + 3, 1, 2, 65, 129];
    lens.sort();
    lens.dedup();
    let probes = lens
        .into_iter()
        .filter(|l| *l > 0)
        .map(|l| {
            let mut want = vec![];
            let mut pos = 0;
            while l - pos >= n.max(1) {
                let t = m.min(l - pos);
                want.push((7, pos, pos + t));
                pos += t;
            }
            ("a".repeat(l), want)
        })
        .collect();
    Instance { name: pat.clone(), cfg: Cfg::single(vec![CPat::new(&pat, 7)]), probes, states: m + 1 }
}

fn keywords_instance(n: usize, width: usize) -> Instance {
    // k0000 .. k<n-1>: one keyword per token type
    let kws: Vec<String> = (0..n).map(|i| format!("k{:0w$}", i, w = width)).collect();
    let mut probes = vec![];
    for i in [0, 1, 95, 96, 255, 256, 257, 511, 512, 819, 820, 1023, 1024, 4095, 4096, 65_535, 65_536, n / 2, n - 2, n - 1] {
        if i < n {
            // (numbers with more digits than `width` make longer keywords)
            probes.push((kws[i].clone(), vec![(i, 0, kws[i].len())]));
            // one character less than the shortest keyword is no keyword
            probes.push((kws[i][..width].to_string(), vec![]));
        }
    }
    Instance { name: format!("{n} keywords k{}..", "0".repeat(width)), cfg: Cfg::single(kws.iter().enumerate().map(|(i, k)| CPat::new(k, i)).collect()), probes, states: n * (width + 1) + 1 }
}

/// `n` keywords followed by a catch-all identifier pattern listed LAST: a keyword alone is the
/// keyword (tie, earlier pattern), a keyword followed by another letter is one identifier (longest
/// match of a pattern that sits `n` positions behind the keyword).
fn keywords_ident_instance(n: usize, width: usize) -> Instance {
    let kws: Vec<String> = (0..n).map(|i| format!("k{:0w$}", i, w = width)).collect();
    let mut pats: Vec<CPat> = kws.iter().enumerate().map(|(i, k)| CPat::new(k, i)).collect();
    pats.push(CPat::new("[a-z0-9]+", n));
    pats.push(CPat::new(" ", n + 1));
    let mut probes = vec![];
    for i in [0, 1, 2, 100, 255, 256, 257, 300, 511, 512, 513, 1023, 1024, 1025, n / 2, n - 2, n - 1] {
        if i < n {
            let k = &kws[i];
            let l = k.len();
            probes.push((k.clone(), vec![(i, 0, l)]));
            probes.push((format!("{k}x"), vec![(n, 0, l + 1)]));
            probes.push((format!("{k} {k}z {k}"), vec![(i, 0, l), (n + 1, l, l + 1), (n, l + 1, 2 * l + 2), (n + 1, 2 * l + 2, 2 * l + 3), (i, 2 * l + 3, 3 * l + 3)]));
        }
    }
    Instance { name: format!("{n} keywords + identifier pattern listed last"), cfg: Cfg::single(pats), probes, states: n * (width + 1) + 3 }
}

/// One pattern that is an alternation of `n` keywords.
fn alternation_instance(n: usize) -> Instance {
    let kws: Vec<String> = (0..n).map(|i| format!("k{:04}", i)).collect();
    let mut probes = vec![];
    for i in 0..n {
        if i < 40 || i % 7 == 0 || i + 40 > n {
            probes.push((kws[i].clone(), vec![(5, 0, 5)]));
        }
    }
    probes.push(("k000".to_string(), vec![]));
    Instance { name: format!("one pattern with {n} alternatives"), cfg: Cfg::single(vec![CPat::new(&kws.join("|"), 5)]), probes, states: n * 6 + 2 }
}

/// `n` modes chained by transitions: mode m knows `a` (token type m, switches to mode m+1) and
/// `b` (token type n+m, switches back to mode 0); the token types of a run of a's count the modes.
fn modes_chain_instance(n: usize) -> Instance {
    let modes = (0..n)
        .map(|m| bridge::CMode { name: format!("M{m}"), pats: vec![CPat::new("a", m), CPat::new("b", n + m)], transitions: vec![(m, (m + 1) % n), (n + m, 0)] })
        .collect();
    let run = |k: usize| -> (String, Vec<(usize, usize, usize)>) { ("a".repeat(k), (0..k).map(|i| (i % n, i, i + 1)).collect()) };
    let mut probes = vec![run(n - 1), run(n), run(n + 3)];
    // a's up to mode 257 (resp. n-1), one b back to mode 0, two more a's
    for k in [255usize, 256, 257, n - 1] {
        if k < n {
            let mut toks: Vec<(usize, usize, usize)> = (0..k).map(|i| (i, i, i + 1)).collect();
            toks.push((n + k, k, k + 1));
            toks.push((0, k + 1, k + 2));
            toks.push((1, k + 2, k + 3));
            probes.push((format!("{}baa", "a".repeat(k)), toks));
        }
    }
    Instance { name: format!("{n} modes chained by transitions"), cfg: Cfg { modes }, probes, states: 3 * n }
}

/// Several long patterns in one mode, the long ones not last.
fn long_patterns_instance() -> Instance {
    let cfg = Cfg::single(vec![CPat::new("a{600}", 0), CPat::new("b{300}", 1), CPat::new("c{700}x", 2), CPat::new("[abc]", 3)]);
    let probes = vec![
        ("a".repeat(600), vec![(0, 0, 600)]),
        ("b".repeat(300), vec![(1, 0, 300)]),
        (format!("{}x", "c".repeat(700)), vec![(2, 0, 701)]),
        ("a".repeat(2), vec![(3, 0, 1), (3, 1, 2)]),
        (format!("{}{}", "b".repeat(300), "a".repeat(600)), vec![(1, 0, 300), (0, 300, 900)]),
    ];
    Instance { name: "a{600}, b{300}, c{700}x, [abc] in one mode".into(), cfg, probes, states: 1605 }
}

fn copies_instance(n: usize, pat: &str, text: &str) -> Instance {
    // n copies of one pattern with distinct token types: the first one wins
    let l = text.len();
    Instance {
        name: format!("{n} x {pat:?} with distinct token types"),
        cfg: Cfg::single((0..n).map(|i| CPat::new(pat, i)).collect()),
        probes: vec![(text.to_string(), vec![(0, 0, l)]), (format!("{text}{text}"), vec![(0, 0, l), (0, l, 2 * l)]), (text[..l - 1].to_string(), vec![])],
        states: n * l + 1,
    }
}

fn literals_instance(n: usize) -> Instance {
    // n distinct one-character patterns (n classes)
    let chars: Vec<char> = (0x4e00u32..).filter_map(char::from_u32).take(n).collect();
    let mut probes = vec![];
    for i in [0, 1, 255, 256, 4095, 4096, 65_534, 65_535, 65_536, n - 1] {
        if i < n {
            probes.push((chars[i].to_string(), vec![(i, 0, chars[i].len_utf8())]));
        }
    }
    Instance { name: format!("{n} distinct one-character patterns"), cfg: Cfg::single(chars.iter().enumerate().map(|(i, c)| CPat::new(&c.to_string(), i)).collect()), probes, states: n + 1 }
}

/// `n` irregular keywords (23 first letters, 2..4 characters, prefixes of each other allowed), each
/// padded with an irregular number of empty groups `()` in front of and behind the word: an empty
/// group costs a state of the unminimized (NFA-level) automaton and nothing afterwards, so the
/// construction crosses 2^16 NFA states while the deterministic automaton stays small.
fn padded_keywords_instance(n: usize, pad: usize) -> Instance {
    let first: Vec<char> = "abcdefghijklmnopqrstuvw".chars().collect();
    let word = |i: usize| {
        let mut w = String::new();
        w.push(first[i % 23]);
        let mut k = i / 23;
        loop {
            w.push((b'0' + (k % 6) as u8) as char);
            k /= 6;
            if k == 0 {
                break;
            }
        }
        w
    };
    let mut pats = vec![];
    let mut probes = vec![];
    let mut states = 1;
    for i in 0..n {
        let w = word(i);
        let front = (i * 7) % 5;
        let back = pad + (i * 37) % 17;
        pats.push(CPat::new(&format!("{}{}{}", "()".repeat(front), w, "()".repeat(back)), i));
        states += front + back + w.len() + 1;
        if i < 30 || i % 41 == 0 || i + 30 > n {
            // the word alone is its own keyword (a longer keyword needs more input)
            probes.push((w.clone(), vec![(i, 0, w.len())]));
        }
    }
    probes.push(("z0".into(), vec![]));
    Instance { name: format!("{n} irregular keywords padded with {pad}..{} empty groups each", pad + 16), cfg: Cfg::single(pats), probes, states }
}

/// `n` short patterns `<a|b><id><pads>`: the first letter alternates aperiodically between two
/// classes (Thue-Morse), the id (base 34, unique) keeps every pattern distinguishable, and 0..2
/// empty groups in front plus 1..4 behind make the positions of the first-character transitions
/// dense and irregular in the state numbering of the unminimized automaton, which crosses 2^16
/// states after roughly three quarters of the list.
fn dense_instance(n: usize) -> Instance {
    let digits: Vec<char> = "cdefghijklmnopqrstuvwxyz0123456789".chars().collect();
    let mut pats = vec![];
    let mut probes = vec![];
    let mut states = 1;
    for i in 0..n {
        let mut w = String::new();
        w.push(if i.count_ones() % 2 == 0 { 'a' } else { 'b' });
        let mut id = vec![];
        let mut k = i;
        loop {
            id.push(digits[k % 34]);
            k /= 34;
            if k == 0 {
                break;
            }
        }
        id.reverse();
        w.extend(id);
        w.push('!'); // terminator: no keyword is a prefix of another
        let front = (i * 7 + i / 5) % 3;
        let back = 1 + (i * 37 + i / 11) % 4;
        pats.push(CPat::new(&format!("{}{}{}", "()".repeat(front), w, "()".repeat(back)), i));
        states += front + back + w.len() + 1;
        if i < 20 || i % 97 == 0 || i + 400 > n {
            probes.push((w.clone(), vec![(i, 0, w.len())]));
        }
    }
    Instance { name: format!("{n} short patterns <a|b><unique id>! with 0..2 + 1..4 empty groups (dense, irregular first-character transitions)"), cfg: Cfg::single(pats), probes, states }
}

/// Two long branches whose tails are mirror images of each other (`aa|bb` against `ab|ba`): after
/// the prefixes the two branches hold states that differ only in which of two target groups a
/// class leads to. Anything that identifies a state by an order-independent summary of its
/// transitions merges them.
fn mirrored_tails_instance(n: usize) -> Instance {
    let pat = format!("1[ab]{{{n}}}(aa|bb)|2[ab]{{{n}}}(ab|ba)");
    let body = "ab".repeat(n / 2);
    let probes = vec![
        (format!("1{body}aa"), vec![(0, 0, n + 3)]),
        (format!("2{body}ba"), vec![(0, 0, n + 3)]),
        (format!("1{body}bb"), vec![(0, 0, n + 3)]),
    ];
    Instance { name: format!("1[ab]{{{n}}}(aa|bb)|2[ab]{{{n}}}(ab|ba)"), cfg: Cfg::single(vec![CPat::new(&pat, 0)]), probes, states: 2 * n + 10 }
}

pub fn run(tier: Tier) -> ! {
    let mut run = Run::new("C17", tier);
    let mut inst: Vec<Instance> = vec![
        rep_instance(1100, ""),
        rep_instance(1500, "b"),
        rep_instance(2200, "bc"),
        range_instance(2, 150),
        range_instance(100, 180),
        range_instance(0, 400),
        keywords_instance(1000, 4),
        keywords_ident_instance(1300, 4),
        modes_chain_instance(300),
        modes_chain_instance(1100),
        long_patterns_instance(),
        alternation_instance(300),
        alternation_instance(1200),
        keywords_instance(4200, 4),
        copies_instance(5000, "a", "a"),
        copies_instance(1300, "ab", "ab"),
        literals_instance(1100),
        padded_keywords_instance(300, 12),   // ~  7 000 NFA-level states
        padded_keywords_instance(620, 100),  // ~ 69 000 NFA-level states: beyond 2^16 without a large DFA
        padded_keywords_instance(1400, 40),  // ~ 72 000
        mirrored_tails_instance(300),
        mirrored_tails_instance(700),
        dense_instance(1000),
        dense_instance(9_000), // ~ 75 000 NFA-level states, a trie of ~ 20 000 deterministic states
    ];
    // beyond 2^16 states (minutes per instance)
    let big_quick = std::env::var("VERIF_C17_BIG").map(|v| v != "0").unwrap_or(true);
    if big_quick || tier == Tier::Thorough {
        inst.push(copies_instance(65_600, "a", "a"));
    }
    if tier == Tier::Thorough {
        inst.push(copies_instance(65_535, "a", "a"));
        inst.push(copies_instance(65_536, "a", "a"));
        inst.push(literals_instance(65_536));
        inst.push(keywords_instance(13_200, 4)); // 66 001 states
        inst.push(rep_instance(66_000, "b"));
    }
    let tables = AtomTables::default();
    let viol = Mutex::new(ViolAcc::default());
    let report = Mutex::new(Vec::new());
    let samples = Mutex::new(Samples::new(8));
    let totals = Mutex::new((0usize, 0usize, 0usize, 0usize)); // states, transitions, probes, nontrivial
    par_for(inst.len(), 1, || (), |_, i| {
        let ins = &inst[i];
        let t0 = std::time::Instant::now();
        // 1. one build through the public API (the minimizer recorder is a passive hook)
        scnr::verif::minimizer_recording(true);
        let built = catch(|| ins.cfg.build_uncached());
        let log = scnr::verif::minimizer_take_log();
        scnr::verif::minimizer_recording(false);
        let build_s = t0.elapsed().as_secs_f64();
        let brief = json!({"instance": ins.name, "modes": ins.cfg.modes.len(), "patterns": ins.cfg.modes.iter().map(|m| m.pats.len()).sum::<usize>(), "approx_unminimized_states": ins.states});
        match built {
            Err(p) => {
                viol.lock().unwrap().add("", || Violation { key: String::new(), summary: format!("building {} panicked: {p}", ins.name), replay: brief.clone() });
                return;
            }
            Ok(Err(e)) => {
                // rejected with an error: acceptable
                report.lock().unwrap().push(json!({"instance": ins.name, "outcome": "rejected with an error (accepted)", "error": e.chars().take(120).collect::<String>(), "build_s": build_s}));
                return;
            }
            Ok(Ok(sc)) => {
                // 2. real scans of the inputs the property names
                let mut n_probes = 0;
                for (input, want) in &ins.probes {
                    n_probes += 1;
                    let got = bridge::scan_all(&sc, input);
                    if got.as_ref().ok() != Some(want) {
                        let shown: String = if input.len() > 40 { format!("{}... ({} bytes)", &input[..input.char_indices().nth(12).map(|x| x.0).unwrap_or(0)], input.len()) } else { input.clone() };
                        viol.lock().unwrap().add("", || Violation {
                            key: String::new(),
                            summary: format!("{}: input {shown:?} is tokenized as {:?}, the longest-match rule prescribes {want:?}", ins.name, got.as_ref().map(|v| v.iter().take(4).collect::<Vec<_>>())),
                            replay: json!({"instance": ins.name, "how_to_build": "see harness/hookcheck/src/c17.rs (the instance is generated)", "input_bytes": input.len(), "input_prefix": shown, "expected": want, "got": format!("{:?}", got.map(|v| v.into_iter().take(6).collect::<Vec<_>>()))}),
                        });
                    }
                }
                // 3. all strings: E1 product on the dump + minimizer pairs (hooks)
                let spec = ins.cfg.to_spec().expect("generated instance parses");
                let o = analyse_built(&sc, &spec, &log, &tables, true, true, false, false, None, E1Outcome::default());
                drop(sc);
                for (w, m) in o.c02.iter().chain(o.c03.iter()) {
                    viol.lock().unwrap().add("", || Violation { key: String::new(), summary: format!("{}: {w}: {} (witness {:?})", ins.name, m.what, m.witness.chars().take(30).collect::<String>()), replay: json!({"instance": ins.name, "where": w, "disagreement": m.what, "witness_length": m.witness.chars().count()}) });
                }
                let mut t = totals.lock().unwrap();
                t.0 += o.stats02.states + o.stats03.states;
                t.1 += o.stats02.transitions + o.stats03.transitions;
                t.2 += n_probes;
                if ins.states > 65_535 {
                    t.3 += 1;
                }
                report.lock().unwrap().push(json!({"instance": ins.name, "outcome": "built", "build_s": build_s, "total_s": t0.elapsed().as_secs_f64(), "product_states": o.stats02.states, "minimizer_pair_states": o.stats03.states, "blocks": o.blocks, "probes": n_probes,
                    "capped": o.stats02.capped || o.stats03.capped}));
                samples.lock().unwrap().push(|| brief.clone());
            }
        }
    });
    // large near-identical pattern lists through the process-wide cache: list A, then A with ONE
    // keyword renamed (for several positions), then A again; every scanner must know exactly its
    // own keywords. Anything that identifies a large list by less than all of it shows here.
    let mut twin_builds = 0usize;
    let twin_sizes: &[usize] = if tier == Tier::Quick { &[520, 1300] } else { &[520, 1300, 4200] };
    for &n in twin_sizes {
        let base: Vec<String> = (0..n).map(|i| format!("k{:04}", i)).collect();
        let cfg_of = |kws: &[String]| Cfg::single(kws.iter().enumerate().map(|(i, k)| CPat::new(k, i)).collect());
        let mut check = |label: String, kws: &[String], changed: Option<usize>| {
            twin_builds += 1;
            let r = catch(|| {
                let sc = cfg_of(kws).build_cached().map_err(|e| e.to_string())?;
                let mut bad = vec![];
                let idx: Vec<usize> = [0usize, 1, n / 2, n - 1].into_iter().chain(changed).collect();
                for i in idx {
                    let got = bridge::scan_all(&sc, &kws[i]).map_err(|e| e.to_string())?;
                    if got != vec![(i, 0, kws[i].len())] {
                        bad.push(format!("{:?} is tokenized as {:?}, expected type {i}", kws[i], got));
                    }
                }
                if let Some(k) = changed {
                    // the name the keyword has in the other list is not a keyword here
                    let got = bridge::scan_all(&sc, &base[k]).map_err(|e| e.to_string())?;
                    if !got.is_empty() {
                        bad.push(format!("{:?} (a keyword of the list built before, not of this one) is tokenized as {:?}", base[k], got));
                    }
                }
                Ok::<Vec<String>, String>(bad)
            });
            match r {
                Ok(Ok(bad)) if bad.is_empty() => {}
                Ok(Err(_)) => {} // rejected with an error: acceptable
                other => {
                    let what = format!("{other:?}").chars().take(400).collect::<String>();
                    viol.lock().unwrap().add("", || Violation { key: String::new(), summary: format!("{n} keywords through build(), {label}: {what}"), replay: json!({"calls": [format!("build() of k0000..k{:04} (token type = index)", n - 1), "build() of the same list with one keyword renamed to q<index> (for each of the positions 1,2,3,5,7,50,52,53,101,255,256,257,n-2)", "build() of the first list again"], "step": label, "problem": what}) });
                }
            }
        };
        check("the list itself".into(), &base, None);
        let positions: Vec<usize> = if n > 2000 { vec![1, 50, 257, n - 2] } else { vec![1, 2, 3, 5, 7, 50, 52, 53, 101, 255, 256, 257, n - 2] };
        for k in positions {
            let mut kws = base.clone();
            kws[k] = format!("q{:04}", k);
            check(format!("keyword #{k} renamed"), &kws, Some(k));
            check(format!("the original list again after the variant #{k}"), &base, None);
        }
    }
    let n_dis = viol.lock().unwrap().total();
    std::mem::take(&mut *viol.lock().unwrap()).flush(&mut run);
    let t = *totals.lock().unwrap();
    let rep = report.lock().unwrap().clone();
    let beyond = inst.iter().filter(|i| i.states > 65_535).count();
    let mut cov = Map::new();
    cov.insert("states".into(), json!(t.0.max(1)));
    cov.insert("transitions".into(), json!(t.1.max(1)));
    cov.insert("traces_validated_against_impl".into(), json!(t.2));
    cov.insert("samples".into(), json!(samples.lock().unwrap().items));
    cov.insert("evaluations".into(), json!(inst.len()));
    cov.insert("distinct_nontrivial".into(), json!(inst.len()));
    cov.insert("rule".into(), json!("one evaluation = one generated instance built through the public API; a built scanner is decided for ALL strings by closing the product of its dumped automaton with the reference automaton over the block alphabet, its recorded minimizer pairs are compared the same way, and the inputs the property names (exact length, one less, 1024/2^16 less, first/last/boundary patterns) are scanned by the real scanner (= traces validated); every instance is larger than anything in the repository's suite"));
    cov.insert("exhaustive".into(), json!(rep.iter().all(|r| r["capped"] != json!(true))));
    cov.insert("instances".into(), json!(rep));
    cov.insert("instances_beyond_65535_states".into(), json!(beyond));
    cov.insert("near_identical_large_lists_through_the_cache".into(), json!({"list_sizes": twin_sizes, "build_calls": twin_builds, "shape": "list, then for 13 positions (4 for the 4200 list): list with that keyword renamed, list again; probes: first, second, middle, last and the renamed keyword, and the old name of the renamed one"}));
    cov.insert("disagreeing_instances".into(), json!(n_dis));
    run.finish(
        "model_checking",
        cov,
        &[
            "the instance list is a fixed list, not a sweep: a 2^16 boundary cannot be scaled down without changing the type under test; medium instances (10^3..10^4 states, patterns, classes) guard against smaller thresholds",
            "rejection with an error is an acceptable outcome",
            "instances beyond 2^16 states take minutes to build (quadratic construction in scnr); set VERIF_C17_BIG=0 to skip the one in the quick tier",
        ],
    )
}
