//! Checks that need the feature-guarded hooks of scnr (feature `verif`).
mod c02c03;
mod c13;
mod c17;
mod c18;
mod e1;
mod e3;
mod hist;

use refsem::evidence::{machinery, parse_args};

fn main() {
    // child process of C13: large configurations through the cache (isolated: a build that
    // recurses or loops for ever under the cache lock must not take the check down with it)
    if std::env::args().nth(1).as_deref() == Some("c13-large-probe") {
        c13::large_probe();
    }
    let (prop, tier, _rest) = parse_args();
    bridge::quiet_panics();
    match prop.as_str() {
        "C02" => c02c03::run("C02", tier),
        "C03" => c02c03::run("C03", tier),
        "C06" => hist::run("C06", tier),
        "C13" => c13::run(tier),
        "C17" => c17::run(tier),
        "C18" => c18::run(tier),
        "C09" => hist::run("C09", tier),
        "C10" => hist::run("C10", tier),
        "C11" => hist::run("C11", tier),
        p => machinery(&format!("hookcheck does not know property {p}")),
    }
}
