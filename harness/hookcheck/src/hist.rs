//! C06, C09, C10, C11 through the E3 history search.

use crate::e3::{explore, Ctx, Disagreement, Kind, Offsets, Op, OpSet};
use bridge::{CMode, CPat, Cfg};
use refsem::evidence::{Run, Samples, Tier, ViolAcc, Violation};
use refsem::families::inputs;
use refsem::model::ScanTable;
use refsem::par::par_for;
use refsem::sem::AtomTables;
use serde_json::{json, Map, Value};
use std::collections::BTreeMap;

/// Which properties does a disagreement belong to? A wrong `next()` belongs to every property whose
/// quantifier covers the operations of the history that led to it.
pub fn owners(d: &Disagreement) -> Vec<&'static str> {
    match d.kind {
        Kind::Mode => {
            // the mode after a reset is C10's business as well ("in the current mode")
            if d.at.is_reset() {
                vec!["C06", "C10"]
            } else {
                vec!["C06"]
            }
        }
        Kind::Position | Kind::TokenPosition | Kind::QueryImpure => vec!["C09"],
        Kind::Peek | Kind::PeekImpure => {
            if d.history_has_reset() {
                vec!["C11", "C10"]
            } else {
                vec!["C11"]
            }
        }
        Kind::Next => {
            let mut v = vec![];
            if d.history_has_reset() {
                v.push("C10");
            } else {
                v.push("C06");
            }
            if d.history_has_peek() {
                v.push("C11");
            }
            v
        }
        Kind::Panic => match d.at {
            Op::Peek(_) => vec!["C11", "C07"],
            Op::AdvPeek(_) | Op::SetOffset(_) | Op::WithOffset(_) => vec!["C10", "C07"],
            Op::SetMode(_) => vec!["C06", "C07"],
            Op::Next => {
                if d.history_has_reset() {
                    vec!["C10", "C07"]
                } else {
                    vec!["C07", "C06"]
                }
            }
        },
    }
}

pub struct Family {
    /// histories up to this length are enumerated without deduplication
    pub stateless_depth: usize,
    pub name: String,
    pub cfgs: Vec<Cfg>,
    pub inputs: Vec<String>,
    pub ops: OpSet,
    pub describe: String,
}

fn mode(name: &str, pats: &[(&str, usize)], tr: &[(usize, usize)]) -> CMode {
    CMode { name: name.to_string(), pats: pats.iter().map(|(p, t)| CPat::new(p, *t)).collect(), transitions: tr.to_vec() }
}

/// All transition tables over token types {0,1,2} with targets in `0..n_modes` (or none).
fn transition_tables(n_modes: usize) -> Vec<Vec<(usize, usize)>> {
    let opts = n_modes + 1;
    let mut v = vec![];
    for code in 0..opts.pow(3) {
        let mut t = vec![];
        let mut c = code;
        for tt in 0..3 {
            let o = c % opts;
            c /= opts;
            if o > 0 {
                t.push((tt, o - 1));
            }
        }
        v.push(t);
    }
    v
}

fn pattern_lists() -> Vec<Vec<(&'static str, usize)>> {
    vec![vec![("a", 0)], vec![("a", 0), ("b", 1)], vec![("ab", 1), ("a", 0)], vec![("[ab]+", 2)], vec![("b", 0), ("a", 2)], vec![("a", 1), ("ab", 1), ("b", 2)]]
}

/// Mode graphs of C06: `n_modes` modes, every combination of pattern lists, every transition table.
pub fn mode_graphs(n_modes: usize, lists: &[Vec<(&'static str, usize)>], tables_stride: usize) -> Vec<Cfg> {
    let tabs = transition_tables(n_modes);
    let mut out = vec![];
    let nl = lists.len();
    let nt = tabs.len();
    let total_l = nl.pow(n_modes as u32);
    let total_t = nt.pow(n_modes as u32);
    for li in 0..total_l {
        let mut ti = 0;
        while ti < total_t {
            let mut modes = vec![];
            let (mut l, mut t) = (li, ti);
            for m in 0..n_modes {
                modes.push(mode(&format!("M{m}"), &lists[l % nl], &tabs[t % nt]));
                l /= nl;
                t /= nt;
            }
            out.push(Cfg { modes });
            ti += tables_stride;
        }
    }
    out
}

fn la(p: &str, tt: usize, pos: bool, l: &str) -> CPat {
    CPat::new(p, tt).with_la(pos, l)
}

/// Configurations with lookaheads and transitions for C10/C11.
fn lookahead_mode_cfgs() -> Vec<Cfg> {
    let mut v = vec![];
    v.push(Cfg::single(vec![la("a", 0, true, "b"), CPat::new("b", 1)]));
    v.push(Cfg::single(vec![la("(a)+", 0, true, "b"), CPat::new("[ab]", 1)]));
    v.push(Cfg::single(vec![la("a", 0, false, "a"), CPat::new("ab", 1), CPat::new("b", 2)]));
    v.push(Cfg::single(vec![la("ab", 0, false, "x"), la("a", 1, true, "bx"), CPat::new("x", 2)]));
    v.push(Cfg {
        modes: vec![
            CMode { name: "A".into(), pats: vec![la("a", 0, true, "b"), CPat::new("b", 1), CPat::new("a", 2)], transitions: vec![(1, 1)] },
            CMode { name: "B".into(), pats: vec![la("b", 0, false, "b"), CPat::new("a+", 1), CPat::new("b", 2)], transitions: vec![(0, 0), (2, 1)] },
        ],
    });
    // one token type, one regex, another lookahead in each mode
    v.push(Cfg {
        modes: vec![
            CMode { name: "A".into(), pats: vec![la("a", 0, true, "b"), CPat::new("b", 1), CPat::new("a", 2)], transitions: vec![(1, 1)] },
            CMode { name: "B".into(), pats: vec![la("a", 0, false, "b"), CPat::new("b", 1), CPat::new("a", 2)], transitions: vec![(1, 0)] },
        ],
    });
    v.push(Cfg {
        modes: vec![
            CMode { name: "A".into(), pats: vec![la("a", 0, true, "b"), CPat::new("[ab]", 1)], transitions: vec![(1, 1)] },
            CMode { name: "B".into(), pats: vec![la("a", 0, true, "a"), CPat::new("[ab]", 1)], transitions: vec![(0, 0), (1, 2)] },
            CMode { name: "C".into(), pats: vec![CPat::new("a", 0), la("b", 1, false, "a")], transitions: vec![(0, 0)] },
        ],
    });
    v
}

/// Pattern sets with gaps (characters nothing matches) for C11.
fn gap_cfgs() -> Vec<Cfg> {
    vec![
        Cfg::single(vec![CPat::new("a", 0)]),
        Cfg::single(vec![CPat::new("a+", 0), CPat::new("b", 1)]),
        Cfg { modes: vec![mode("A", &[("a", 0), ("b", 1)], &[(1, 1)]), mode("B", &[("a+", 2), ("b", 1)], &[(1, 0)])] },
        Cfg { modes: vec![mode("A", &[("a", 0)], &[(0, 1)]), mode("B", &[("b", 0), ("ab", 1)], &[(0, 0), (1, 1)])] },
        Cfg { modes: vec![mode("A", &[("a", 0), ("\n", 1)], &[]), mode("B", &[("a", 0), ("b\na", 3), ("b", 2)], &[(2, 0)])] },
    ]
}

fn newline_cfgs() -> Vec<Cfg> {
    vec![
        Cfg::single(vec![CPat::new("a+", 0), CPat::new("\\n", 1), CPat::new("b", 2)]),
        Cfg::single(vec![CPat::new("a", 0), CPat::new("b\\nb", 1), CPat::new("b", 2)]),
        Cfg::single(vec![CPat::new("a+", 0), CPat::new("é", 1)]),
        Cfg::single(vec![CPat::new("(a|é)+\\n?", 0), CPat::new("\\n+", 1), CPat::new("b", 2)]),
        Cfg { modes: vec![mode("A", &[("a", 0), ("\\n", 1)], &[(1, 1)]), mode("B", &[("b\\n", 2), ("[ab]", 0)], &[(2, 0)])] },
        // whole lines as tokens, whatever they contain
        Cfg::single(vec![CPat::new(".+", 0), CPat::new("\\n", 1)]),
    ]
}

pub fn families(prop: &str, tier: Tier) -> Vec<Family> {
    let q = tier == Tier::Quick;
    let mut f = vec![];
    match prop {
        "C06" => {
            let lists = pattern_lists();
            let ops = OpSet { next: true, peeks: vec![1, 2], adv: vec![], offsets: Offsets::None, set_modes: true, with_positions: false, positions: false, with_offset_ops: false };
            f.push(Family {
                stateless_depth: 0,
                name: "mode-graphs-2".into(),
                cfgs: mode_graphs(2, &lists, 1),
                inputs: inputs(&['a', 'b', 'x'], if q { 3 } else { 4 }),
                ops: ops.clone(),
                describe: "2 modes x 6 pattern lists each x all 27^2 transition tables over token types {0,1,2} (shared between modes, self-loops included)".into(),
            });
            if q {
                f.push(Family { stateless_depth: 0, name: "mode-graphs-3".into(), cfgs: mode_graphs(3, &lists[..3], 997), inputs: inputs(&['a', 'b', 'x'], 3), ops: ops.clone(), describe: "3 modes x 3 pattern lists each x every 997th of the 64^3 transition tables (a fixed arithmetic sub-sequence, enumerated completely)".into() });
            } else {
                f.push(Family { stateless_depth: 0, name: "mode-graphs-3".into(), cfgs: mode_graphs(3, &lists[..3], 97), inputs: inputs(&['a', 'b', 'x'], 4), ops: ops.clone(), describe: "3 modes x 3 pattern lists each x every 97th of the 64^3 transition tables".into() });
            }
            // the same through the WithPositions adapter (it forwards set_mode/current_mode/mode_name)
            f.push(Family {
                stateless_depth: 0,
                name: "mode-graphs-2 through WithPositions, cached build()".into(),
                cfgs: mode_graphs(2, &lists[..4], 11),
                inputs: inputs(&['a', 'b', 'x'], 3),
                ops: OpSet { next: true, peeks: vec![], adv: vec![], offsets: Offsets::None, set_modes: true, with_positions: true, positions: false, with_offset_ops: false },
                describe: "WithPositions<FindMatches> driven with next/set_mode on every 11th transition table of 4x4 pattern lists; the scanners come from ScannerBuilder::build(), i.e. through the process-wide cache, one after the other in one process, and differ in nothing but their transitions".into(),
            });
            // resets keep the mode: set_offset / with_offset to every boundary between the calls
            f.push(Family {
                stateless_depth: 0,
                name: "mode-graphs-2 with resets".into(),
                cfgs: mode_graphs(2, &lists[1..5], if q { 23 } else { 5 }),
                inputs: inputs(&['a', 'b', 'x'], 3),
                ops: OpSet { next: true, peeks: vec![], adv: vec![], offsets: Offsets::All, set_modes: true, with_positions: false, positions: false, with_offset_ops: true },
                describe: "2 modes x 4 pattern lists x every 23rd (thorough: 5th) transition table; next / set_mode interleaved with set_offset and with_offset to every boundary (a reset keeps the current mode)".into(),
            });
            // unusual numbers: token types at the u16/u32 borders in transitions, a mode without
            // patterns as a transition target, a transition to the last mode, equal token types in
            // all modes
            let big = u32::MAX as usize;
            let mut odd = vec![];
            for (t0, t1) in [(65_536usize, big), (big, 65_535), (255, 256), (0, big)] {
                odd.push(Cfg {
                    modes: vec![
                        CMode { name: "A".into(), pats: vec![CPat::new("a", t0), CPat::new("b", t1)], transitions: { let mut t = vec![(t0, 1), (t1, 2)]; t.sort(); t } },
                        CMode { name: "EMPTY".into(), pats: vec![], transitions: vec![] },
                        CMode { name: "C".into(), pats: vec![CPat::new("[ab]", t0), CPat::new("x", t1)], transitions: { let mut t = vec![(t0, 2), (t1, 0)]; t.sort(); t } },
                    ],
                });
                odd.push(Cfg {
                    modes: vec![
                        CMode { name: "A".into(), pats: vec![CPat::new("a", t1), CPat::new("b", t0)], transitions: { let mut t = vec![(t0, 0), (t1, 1)]; t.sort(); t } },
                        CMode { name: "B".into(), pats: vec![CPat::new("a", t1), CPat::new("b", t0)], transitions: vec![(t0.max(t1), 0)] },
                    ],
                });
            }
            // modes that are equal in everything (name, patterns, transitions): mode indices still
            // count every mode of the list
            for (ta, tb) in [(2usize, 0usize), (1, 2), (2, 2)] {
                let a = CMode { name: "A".into(), pats: vec![CPat::new("a", 0), CPat::new("b", 1)], transitions: vec![(0, ta), (1, tb)] };
                odd.push(Cfg { modes: vec![a.clone(), CMode { name: "B".into(), pats: vec![CPat::new("[ab]", 2), CPat::new("x", 0)], transitions: vec![(0, 0), (2, 2)] }, a.clone()] });
                odd.push(Cfg { modes: vec![a.clone(), a.clone(), CMode { name: "C".into(), pats: vec![CPat::new("a+", 2), CPat::new("b", 1)], transitions: vec![(1, 1), (2, 0)] }] });
            }
            f.push(Family { stateless_depth: 0, name: "unusual numbers".into(), cfgs: odd, inputs: inputs(&['a', 'b', 'x'], if q { 4 } else { 5 }), ops: ops.clone(), describe: "token types 255/256/65535/65536/u32::MAX in patterns and transitions, a mode without patterns as a target, self loops on the last mode; mode lists that contain one mode twice (equal name, patterns and transitions)".into() });
            // the patterns of the current mode include their lookaheads: modes that share token
            // types (and regexes) but differ in the lookahead
            f.push(Family { stateless_depth: 0, name: "lookahead modes".into(), cfgs: lookahead_mode_cfgs(), inputs: inputs(&['a', 'b', 'x'], if q { 4 } else { 5 }), ops: ops.clone(), describe: "modes with positive/negative lookaheads; the same token type (and regex) with another lookahead in another mode".into() });
            // gaps: only next/set_mode driven (peek with unmatched characters is C11's)
            f.push(Family {
                stateless_depth: 0,
                name: "gaps".into(),
                cfgs: gap_cfgs(),
                inputs: inputs(&['a', 'b', 'x', '\n'], if q { 4 } else { 5 }),
                ops: OpSet { next: true, peeks: vec![], adv: vec![], offsets: Offsets::None, set_modes: true, with_positions: false, positions: false, with_offset_ops: false },
                describe: "pattern sets with characters nothing matches; next/set_mode only".into(),
            });
        }
        "C09" => {
            let l = if q { 4 } else { 5 };
            f.push(Family {
                stateless_depth: 0,
                name: "with_positions".into(),
                cfgs: newline_cfgs(),
                inputs: {
                    let mut v = inputs(&['a', 'b', '\n', 'é'], l);
                    v.extend(inputs(&['a', '\r', '\n'], l));
                    // characters whose low byte is that of a line feed (U+010A, U+1F40A) and the
                    // other line separators of Unicode, none of which starts a new line
                    v.extend(inputs(&['a', '\n', '\u{10a}', '\u{1f40a}'], l));
                    v.extend(inputs(&['\n', '\u{2028}', '\u{85}', 'b'], l.min(4)));
                    v.sort();
                    v.dedup();
                    v
                },
                ops: OpSet { next: true, peeks: vec![], adv: vec![], offsets: Offsets::Scanned, set_modes: true, with_positions: true, positions: true, with_offset_ops: false },
                describe: "WithPositions<FindMatches>: next / set_offset(every already scanned boundary) / set_mode; position(o) for every o <= contiguously scanned prefix in every state".into(),
            });
            f.push(Family {
                stateless_depth: 0,
                name: "bare+peek".into(),
                cfgs: newline_cfgs(),
                inputs: inputs(&['a', 'b', '\n', 'é'], if q { 3 } else { 5 }),
                ops: OpSet { next: true, peeks: vec![2], adv: vec![0, 1], offsets: Offsets::Scanned, set_modes: true, with_positions: false, positions: true, with_offset_ops: false },
                describe: "bare FindMatches: adds peek_n(2) and advance_to(end of peeked match)".into(),
            });
        }
        "C10" => {
            let ops = OpSet { next: true, peeks: vec![2], adv: vec![0, 1], offsets: Offsets::All, set_modes: true, with_positions: false, positions: false, with_offset_ops: true };
            let lists = pattern_lists();
            f.push(Family { stateless_depth: 0, name: "mode-graphs-2 (subset)".into(), cfgs: mode_graphs(2, &lists[1..4], if q { 13 } else { 3 }), inputs: inputs(&['a', 'b', 'x'], if q { 3 } else { 4 }), ops: ops.clone(), describe: "2 modes x 3 pattern lists x every 13th (thorough: 3rd) of the 729 transition tables".into() });
            f.push(Family { stateless_depth: 0, name: "lookahead modes".into(), cfgs: lookahead_mode_cfgs(), inputs: inputs(&['a', 'b', 'x'], if q { 4 } else { 5 }), ops: ops.clone(), describe: "modes with positive/negative lookaheads and transitions".into() });
            f.push(Family { stateless_depth: 0, name: "multibyte+newline".into(), cfgs: newline_cfgs(), inputs: inputs(&['a', 'b', '\n', 'é'], if q { 3 } else { 4 }), ops: ops.clone(), describe: "newline/multi-byte configurations of C09".into() });
            // longer inputs with characters nothing matches: resets far enough into the input that
            // what lies behind the reset point is longer than what follows
            f.push(Family { stateless_depth: 0, name: "gaps, longer inputs".into(), cfgs: gap_cfgs()[..4].to_vec(), inputs: inputs(&['a', 'x'], if q { 6 } else { 7 }), ops, describe: "pattern sets with characters nothing matches on every input over {a,x} up to length 6 (thorough 7)".into() });
        }
        "C11" => {
            let ops = OpSet { next: true, peeks: vec![0, 1, 2, usize::MAX, usize::MAX - 1], adv: vec![], offsets: Offsets::None, set_modes: true, with_positions: false, positions: false, with_offset_ops: false };
            let lists = pattern_lists();
            f.push(Family { stateless_depth: 0, name: "mode-graphs-2 (subset)".into(), cfgs: mode_graphs(2, &lists, if q { 7 } else { 1 }), inputs: inputs(&['a', 'b', 'x'], if q { 3 } else { 4 }), ops: ops.clone(), describe: "2 modes x 6 pattern lists x every 7th (thorough: every) transition table".into() });
            f.push(Family { stateless_depth: 0, name: "gaps".into(), cfgs: gap_cfgs(), inputs: inputs(&['a', 'b', 'x', '\n'], if q { 4 } else { 5 }), ops: ops.clone(), describe: "pattern sets with characters nothing matches".into() });
            let mut ops_r = ops.clone();
            ops_r.offsets = Offsets::All;
            ops_r.peeks = vec![1, 2, usize::MAX];
            f.push(Family { stateless_depth: 0, name: "mode-graphs-2 with resets".into(), cfgs: mode_graphs(2, &lists[1..5], if q { 23 } else { 5 }), inputs: inputs(&['a', 'b', 'x'], 3), ops: ops_r, describe: "2 modes x 4 pattern lists x every 23rd (thorough: 5th) transition table; peek_n(1|2||x|+1) interleaved with set_offset(every boundary)".into() });
            let mut mb = newline_cfgs();
            mb.push(Cfg::single(vec![CPat::new("[aé]+", 0), CPat::new("b", 1), CPat::new("€", 2)]));
            mb.push(Cfg { modes: vec![mode("A", &[("é", 0), ("a", 1)], &[(0, 1)]), mode("B", &[("é+", 0), ("a", 1), ("b", 2)], &[(1, 0)])] });
            let mut ops_mb = ops.clone();
            ops_mb.peeks = vec![1, 2, 3];
            f.push(Family { stateless_depth: 0, name: "multi-byte".into(), cfgs: mb, inputs: inputs(&['a', 'b', 'é', '€', '\n'], if q { 4 } else { 5 }), ops: ops_mb, describe: "tokens containing 2- and 3-byte characters, newline configurations of C09; peek_n(1..3)".into() });
            let mut ops2 = ops.clone();
            ops2.offsets = Offsets::All;
            ops2.adv = vec![0];
            f.push(Family { stateless_depth: 0, name: "lookahead modes + resets".into(), cfgs: lookahead_mode_cfgs(), inputs: inputs(&['a', 'b', 'x'], if q { 3 } else { 4 }), ops: ops2, describe: "peek interleaved with set_offset/advance_to on lookahead modes".into() });
        }
        _ => unreachable!(),
    }
    f
}

/// Scripted part of C06: a new iterator starts in mode 0 regardless of the mode set on the Scanner
/// and of earlier iterations; mode_name reports the configured names.
fn c06_scripted(cfg: &Cfg, ins: &[String], tables: &AtomTables, viol: &mut ViolAcc, n: &mut usize) {
    use scnr::{MatchExtIterator, ScannerModeSwitcher};
    let spec = match cfg.to_spec() {
        Ok(s) => s,
        Err(_) => return,
    };
    let mut sc = match bridge::catch(|| cfg.build_uncached()) {
        Ok(Ok(sc)) => sc,
        _ => return,
    };
    let model_stream = |table: &ScanTable| -> Vec<(usize, usize, usize)> {
        let mut st = refsem::model::MState::initial();
        let mut v = vec![];
        while let Some(p) = st.predict_next(table) {
            // lookahead-free configurations: exactly one admissible end
            let e = 63 - p.adm.ends.leading_zeros() as usize;
            v.push((p.adm.token_type, table.byte_of[p.start], table.byte_of[e]));
            let tt = p.adm.token_type;
            st.commit_next(&spec, e, tt);
        }
        v
    };
    let fail = |viol: &mut ViolAcc, what: String, calls: Vec<String>, input: &str| {
        viol.add("", || Violation { key: String::new(), summary: format!("{} on {:?}: {}", cfg.show(), input, what), replay: json!({"configuration": cfg.to_json(), "input": input, "calls": calls, "disagreement": what}) });
    };
    // mode_name
    for i in 0..cfg.modes.len() + 2 {
        let want = cfg.modes.get(i).map(|m| m.name.as_str());
        let it = sc.find_iter("ab");
        let a = sc.mode_name(i).map(|s| s.to_string());
        let b = it.mode_name(i).map(|s| s.to_string());
        let wp = sc.find_iter("ab").with_positions();
        let c = wp.mode_name(i).map(|s| s.to_string());
        *n += 1;
        if a.as_deref() != want || b.as_deref() != want || c.as_deref() != want {
            fail(viol, format!("mode_name({i}) is {a:?} on the scanner, {b:?} on the iterator, {c:?} on WithPositions; configured {want:?}"), vec![format!("mode_name({i})")], "ab");
            return;
        }
    }
    // construction routes: the same mode list handed over one mode at a time, in two slices, through
    // TryFrom and through the cache is the same configuration (mode i is the i-th mode added)
    let modes = cfg.to_scnr();
    let routes: Vec<(&str, Result<Result<scnr::Scanner, String>, String>)> = vec![
        ("ScannerBuilder::new().add_scanner_mode(m0).add_scanner_mode(m1)...build_uncached()", bridge::catch(|| modes.iter().fold(scnr::ScannerBuilder::new(), |b, m| b.add_scanner_mode(m.clone())).build_uncached().map_err(|e| e.to_string()))),
        ("ScannerBuilder::new().add_scanner_mode(m0).add_scanner_mode(m1)...build()", bridge::catch(|| modes.iter().fold(scnr::ScannerBuilder::new(), |b, m| b.add_scanner_mode(m.clone())).build().map_err(|e| e.to_string()))),
        ("ScannerBuilder::new().add_scanner_modes(&m[..1]).add_scanner_modes(&m[1..]).build_uncached()", bridge::catch(|| scnr::ScannerBuilder::new().add_scanner_modes(&modes[..1]).add_scanner_modes(&modes[1..]).build_uncached().map_err(|e| e.to_string()))),
        ("ScannerBuilder::new().add_scanner_mode(m0).add_scanner_modes(&m[1..]).build()", bridge::catch(|| scnr::ScannerBuilder::new().add_scanner_mode(modes[0].clone()).add_scanner_modes(&modes[1..]).build().map_err(|e| e.to_string()))),
        ("Scanner::try_from(modes)", bridge::catch(|| scnr::Scanner::try_from(modes.clone()).map_err(|e| e.to_string()))),
    ];
    let mut route_scanners = vec![];
    for (name, r) in routes {
        *n += 1;
        match r {
            Ok(Ok(s)) => route_scanners.push((name, s)),
            Ok(Err(e)) => {
                fail(viol, format!("{name} fails with {e:?}; add_scanner_modes(all).build_uncached() builds"), vec![name.to_string()], "");
                return;
            }
            Err(p) => {
                fail(viol, format!("{name} panicked: {p}"), vec![name.to_string()], "");
                return;
            }
        }
    }
    for input in ins {
        let table = ScanTable::new(&spec, input, tables);
        let want = model_stream(&table);
        for (name, rs) in &route_scanners {
            *n += 1;
            let r = bridge::catch(|| {
                let it = rs.find_iter(input);
                let names: Vec<Option<String>> = (0..cfg.modes.len()).map(|i| it.mode_name(i).map(|s| s.to_string())).collect();
                let toks: Vec<(usize, usize, usize)> = it.map(|m| bridge::tok(&m)).collect();
                (names, toks)
            });
            let want_names: Vec<Option<String>> = cfg.modes.iter().map(|m| Some(m.name.clone())).collect();
            match r {
                Err(p) => {
                    fail(viol, format!("scanner built by {name}: panic {p}"), vec![name.to_string(), "find_iter(input).collect()".into()], input);
                    return;
                }
                Ok((names, toks)) => {
                    if toks != want || names != want_names {
                        fail(viol, format!("scanner built by {name} has modes {names:?} and yields {toks:?}; the configuration (modes {want_names:?}, start in the first) yields {want:?}"), vec![name.to_string(), "find_iter(input).collect()".into()], input);
                        return;
                    }
                }
            }
        }
        for set_to in 0..cfg.modes.len() {
            *n += 1;
            let r = bridge::catch(|| {
                sc.set_mode(set_to);
                // partial first iteration over the same input (may switch modes)
                let mut first = sc.find_iter(input);
                let _ = first.next();
                let _ = first.next();
                let it = sc.find_iter(input);
                let m0 = it.current_mode();
                let toks: Vec<(usize, usize, usize)> = it.map(|m| bridge::tok(&m)).collect();
                (m0, toks, sc.current_mode())
            });
            match r {
                Err(p) => {
                    fail(viol, format!("panic: {p}"), vec![format!("scanner.set_mode({set_to})"), "find_iter(input) twice".into()], input);
                    return;
                }
                Ok((m0, toks, scm)) => {
                    if m0 != 0 || toks != want {
                        fail(
                            viol,
                            format!("after scanner.set_mode({set_to}) and a partially consumed first iterator, a new iterator reports current_mode() {m0} and yields {toks:?}; an iterator starting in mode 0 yields {want:?}"),
                            vec![format!("scanner.set_mode({set_to})"), "let mut first = scanner.find_iter(input); first.next(); first.next();".into(), "let it = scanner.find_iter(input); it.current_mode(); it.collect()".into()],
                            input,
                        );
                        return;
                    }
                    if scm != set_to {
                        fail(viol, format!("Scanner::current_mode() is {scm} after set_mode({set_to}) and two iterations"), vec![format!("scanner.set_mode({set_to})"), "find_iter ...".into(), "scanner.current_mode()".into()], input);
                        return;
                    }
                }
            }
        }
    }
}

#[derive(Default)]
struct Acc {
    pairs: usize,
    states: usize,
    transitions: usize,
    max_states: usize,
    max_depth: usize,
    capped: usize,
    viol: ViolAcc,
    others: BTreeMap<String, usize>,
    samples: Samples,
    nontrivial: usize,
    peek_classes: [usize; 4],
    build_errors: usize,
}

pub fn run(prop: &'static str, tier: Tier) -> ! {
    let mut run = Run::new(prop, tier);
    let mut tables = AtomTables::default();
    let fams = families(prop, tier);
    let mut keys = vec![];
    for f in &fams {
        for c in &f.cfgs {
            keys.extend(c.atom_keys());
        }
    }
    keys.sort();
    keys.dedup();
    if let Err(e) = bridge::tabulate_atoms(&keys, &mut tables) {
        refsem::evidence::machinery(&format!("cannot tabulate atoms: {e}"));
    }
    let mut total = Acc { samples: Samples::new(8), ..Default::default() };
    let mut fam_json: Vec<Value> = vec![];
    for fam in &fams {
        let n = fam.cfgs.len();
        // Hybrid search: histories up to `stateless_depth` are all expanded without deduplication
        // (so a field the snapshot does not know cannot hide a state), for every `stride`-th
        // configuration of large families and for all configurations of small ones.
        let stride = (n / 400).max(1);
        let stateless_depth = fam.stateless_depth
            + match (prop, tier) {
                ("C06", Tier::Quick) => 4,
                ("C06", Tier::Thorough) => 5,
                ("C10", Tier::Quick) => 2,
                ("C10", Tier::Thorough) => 3,
                (_, Tier::Quick) => 3,
                (_, Tier::Thorough) => 4,
            };
        // the reset family of C06 has an alphabet of about a dozen operations: depth 2 there
        let stateless_depth = if prop == "C06" && fam.ops.with_offset_ops { 2 } else { stateless_depth };
        let accs = par_for(n, 1, || Acc { samples: Samples::new(1), ..Default::default() }, |acc, i| {
            let cfg = &fam.cfgs[i];
            let spec = match cfg.to_spec() {
                Ok(s) => s,
                Err(_) => {
                    acc.build_errors += 1;
                    return;
                }
            };
            // families whose name says so go through the process-wide cache: their configurations
            // differ in nothing but the transition tables
            let cached = fam.name.contains("cached build()");
            let sc = match bridge::catch(|| if cached { cfg.build_cached() } else { cfg.build_uncached() }) {
                Ok(Ok(sc)) => sc,
                _ => {
                    acc.build_errors += 1;
                    return;
                }
            };
            for input in &fam.inputs {
                let table = ScanTable::new(&spec, input, &tables);
                let ctx = Ctx { stateless_depth: if i % stride == 0 { stateless_depth } else { 0 }, key_with_scratch: tier == Tier::Thorough, cfg, spec: &spec, sc: &sc, input, table: &table, ops: &fam.ops };
                let ex = explore(&ctx);
                acc.pairs += 1;
                acc.states += ex.states;
                acc.transitions += ex.transitions;
                acc.max_states = acc.max_states.max(ex.states);
                acc.max_depth = acc.max_depth.max(ex.max_depth);
                if ex.capped {
                    acc.capped += 1;
                }
                if ex.distinct_next_results > 2 {
                    acc.nontrivial += 1;
                }
                for k in 0..4 {
                    acc.peek_classes[k] += ex.peek_classes[k];
                }
                let mut stop = false;
                for d in &ex.disagreements {
                    let os = owners(d);
                    let o = os[0];
                    if os.contains(&prop) {
                        acc.viol.add("", || Violation {
                            key: String::new(),
                            summary: format!("{} on {:?}: after [{}] then {}: {}", cfg.show(), input, d.history.iter().map(|o| o.show()).collect::<Vec<_>>().join(", "), d.at.show(), d.detail),
                            replay: {
                                let mut r = d.replay(cfg, input, fam.ops.with_positions);
                                if cached {
                                    r["built_with"] = json!("ScannerBuilder::build() in a process that built the family's other configurations (same modes and patterns, other transitions) before");
                                }
                                r
                            },
                        });
                        stop = true;
                        break; // shortest history first (BFS order)
                    } else {
                        *acc.others.entry(format!("{o}:{:?}", d.kind)).or_default() += 1;
                    }
                }
                if stop {
                    break;
                }
                if acc.samples.items.len() < 1 && ex.states > 10 {
                    acc.samples.push(|| json!({"family": fam.name, "cfg": cfg.show(), "input": input, "states": ex.states, "transitions": ex.transitions, "max_history_length": ex.max_depth}));
                }
            }
        });
        let before = (total.pairs, total.states, total.transitions);
        for a in accs {
            total.pairs += a.pairs;
            total.states += a.states;
            total.transitions += a.transitions;
            total.max_states = total.max_states.max(a.max_states);
            total.max_depth = total.max_depth.max(a.max_depth);
            total.capped += a.capped;
            total.viol.merge(a.viol);
            for (k, v) in a.others {
                *total.others.entry(k).or_default() += v;
            }
            total.samples.merge(a.samples);
            total.nontrivial += a.nontrivial;
            total.build_errors += a.build_errors;
            for k in 0..4 {
                total.peek_classes[k] += a.peek_classes[k];
            }
        }
        fam_json.push(json!({"family": fam.name, "what": fam.describe, "configurations": n, "inputs": fam.inputs.len(), "pairs_explored": total.pairs - before.0, "states": total.states - before.1, "transitions": total.transitions - before.2,
            "ops": format!("{:?}", fam.ops),
            "stateless_prefix": format!("all histories of length <= {stateless_depth} expanded without deduplication for every {stride}-th configuration")}));
    }
    let mut scripted = 0usize;
    if prop == "C06" {
        let lists = pattern_lists();
        let cfgs = mode_graphs(2, &lists[..4], 5);
        let ins = inputs(&['a', 'b', 'x'], 3);
        let accs = par_for(cfgs.len(), 8, || (ViolAcc::default(), 0usize), |acc, i| {
            c06_scripted(&cfgs[i], &ins, &tables, &mut acc.0, &mut acc.1);
        });
        for (v, n) in accs {
            total.viol.merge(v);
            scripted += n;
        }
        fam_json.push(json!({"family": "scripted: Scanner::set_mode before find_iter, second find_iter after a partial first one, mode_name on scanner/iterator/WithPositions; five construction routes (add_scanner_mode one by one, two slices, mixed, through build(), Scanner::try_from) yield the same modes in the same order", "configurations": cfgs.len(), "inputs": ins.len(), "scripts_run": scripted}));
    }
    if prop == "C06" {
        // mode indices beyond 2^8 and 2^16: a ring of N modes (mode i: `a` => 0 -> mode i+1, `b` => 1
        // stays, `x` => 2 -> mode (i+N/2) mod N), driven by next() and set_mode on the iterator
        use scnr::ScannerModeSwitcher;
        for n_modes in [300usize, 65_600] {
            scripted += 1;
            let modes: Vec<CMode> = (0..n_modes).map(|i| CMode { name: format!("M{i}"), pats: vec![CPat::new("a", 0), CPat::new("b", 1), CPat::new("x", 2)], transitions: { let mut t = vec![(0, (i + 1) % n_modes), (2, (i + n_modes / 2) % n_modes)]; t.sort(); t } }).collect();
            let cfg = Cfg { modes };
            let r = bridge::catch(|| -> Result<(), String> {
                let sc = cfg.build_uncached().map_err(|e| format!("does not build: {e}"))?;
                for start in [0usize, 254, 255, 256, 65_534, 65_535, 65_536, n_modes - 2, n_modes - 1] {
                    if start >= n_modes {
                        continue;
                    }
                    let input = "abaxbaa";
                    let mut it = sc.find_iter(input);
                    it.set_mode(start);
                    let mut mode = start;
                    if it.current_mode() != mode {
                        return Err(format!("after set_mode({start}) current_mode() is {}", it.current_mode()));
                    }
                    if it.mode_name(mode) != Some(&format!("M{mode}")) {
                        return Err(format!("mode_name({mode}) is {:?}", it.mode_name(mode)));
                    }
                    for (k, ch) in input.chars().enumerate() {
                        let m = it.next().ok_or(format!("no token #{k} after set_mode({start})"))?;
                        let want_tt = match ch { 'a' => 0, 'b' => 1, _ => 2 };
                        mode = match ch { 'a' => (mode + 1) % n_modes, 'x' => (mode + n_modes / 2) % n_modes, _ => mode };
                        if (m.token_type(), m.start(), m.end()) != (want_tt, k, k + 1) || it.current_mode() != mode {
                            return Err(format!("after set_mode({start}), token #{k} is {:?} and current_mode() {} (expected type {want_tt} at {k}..{} and mode {mode})", (m.token_type(), m.start(), m.end()), it.current_mode(), k + 1));
                        }
                    }
                }
                Ok(())
            });
            let problem = match r { Ok(Ok(())) => None, Ok(Err(e)) => Some(e), Err(p) => Some(format!("panicked: {p}")) };
            if let Some(p) = problem {
                // an error from build is accepted for the large ring (C17's reading); a wrong mode is not
                if !(p.starts_with("does not build") && n_modes > 65_535) {
                    total.viol.add("", || Violation { key: String::new(), summary: format!("ring of {n_modes} modes: {p}"), replay: json!({"configuration": format!("{n_modes} modes M0..; mode i: a=>0, b=>1, x=>2; transitions (0 -> i+1 mod N), (2 -> i+N/2 mod N)"), "input": "abaxbaa", "calls": ["find_iter(input)", "set_mode(start)", "next() x 7 with current_mode() after each"], "problem": p}) });
                }
            }
        }
        fam_json.push(json!({"family": "rings of 300 and 65 600 modes: transitions to the next mode and half way round, started by set_mode at the u8/u16 borders", "scripts_run": 2}));
    }
    if prop == "C09" {
        // long inputs: more than 2^16 lines, a column beyond 2^16, multi-byte lines; one pass from
        // offset 0 and a second pass after a reset into the middle
        use scnr::{MatchExtIterator, PositionProvider};
        let cfg0 = Cfg::single(vec![CPat::new("[a-zé]+", 0), CPat::new("\\n", 1), CPat::new(" +", 2)]);
        // tokens that contain line breaks: runs of empty lines as one token, comment-like tokens
        // over many lines
        let cfg1 = Cfg::single(vec![CPat::new("c[a\\n]*d", 0), CPat::new("\\n+", 1), CPat::new("[ab]+", 2), CPat::new(" ", 3)]);
        let mut inputs_long: Vec<(Cfg, String, String, bool)> = vec![
            (cfg0.clone(), "70 000 short lines".into(), "ab é\n".repeat(70_000), false),
            (cfg0.clone(), "one line of 70 000 bytes, then two short lines".into(), format!("{} x\nab\n\né", "a".repeat(70_000)), false),
            (cfg0.clone(), "300 empty lines between tokens".into(), format!("a{}b\n", "\n".repeat(300)), false),
            (cfg0.clone(), "120 short lines, every boundary queried, reset to every token from the back".into(), "ab é\nx\n\n".repeat(40), true),
        ];
        for k in (0..=40).chain([63, 64, 65, 127, 128, 129, 255, 256, 257]) {
            inputs_long.push((cfg1.clone(), format!("one token over {k} lines, then a run of {k} empty lines as one token"), format!("b\nc{}d\nb{}a b\n\nab", "a\n".repeat(k), "\n".repeat(k)), true));
        }
        let mut n_tok = 0usize;
        for (cfg, name, input, dense) in &inputs_long {
            let sc = cfg.build_uncached().expect("builds");
            let dense = *dense;
            // true line/column by a single pass over the bytes
            let mut line_start = vec![0usize];
            for (i, b) in input.bytes().enumerate() {
                if b == b'\n' {
                    line_start.push(i + 1);
                }
            }
            let truth = |o: usize| -> (usize, usize) {
                let l = match line_start.binary_search(&o) {
                    Ok(i) => i,
                    Err(i) => i - 1,
                };
                (l + 1, o - line_start[l] + 1)
            };
            let lenient = |o: usize| -> Option<(usize, usize)> {
                if o > 0 && input.as_bytes()[o - 1] == b'\n' {
                    let (l, c) = truth(o - 1);
                    Some((l, c + 1))
                } else {
                    None
                }
            };
            let mut bad: Option<String> = None;
            let r = bridge::catch(|| {
                let mut it = sc.find_iter(input).with_positions();
                let mut bad = None;
                let mut count = 0usize;
                let mut pass = 0;
                loop {
                    match it.next() {
                        Some(m) => {
                            count += 1;
                            let (s, e) = (m.start(), m.end());
                            let sp = (m.start_position().line, m.start_position().column);
                            let ep = (m.end_position().line, m.end_position().column);
                            if sp != truth(s) {
                                bad = Some(format!("token {s}..{e} delivered with start position {sp:?}, true {:?}", truth(s)));
                                break;
                            }
                            if ep != truth(e) && Some(ep) != lenient(e) {
                                bad = Some(format!("token {s}..{e} delivered with end position {ep:?}, true {:?}", truth(e)));
                                break;
                            }
                        }
                        None => {
                            // position queries on scanned offsets, then a reset into the middle and a second pass
                            let few = [0, input.len() / 3, input.len() / 2, input.len() - 1, input.len()];
                            let queries: Vec<usize> = if dense { (0..=input.len()).collect() } else { few.to_vec() };
                            for o in queries {
                                if input.is_char_boundary(o) && bad.is_none() {
                                    let p = it.position(o);
                                    if (p.line, p.column) != truth(o) && Some((p.line, p.column)) != lenient(o) {
                                        bad = Some(format!("position({o}) is {:?}, true {:?}", (p.line, p.column), truth(o)));
                                    }
                                }
                            }
                            pass += 1;
                            if pass == 2 || bad.is_some() {
                                break;
                            }
                            let mut mid = input.len() / 2;
                            while !input.is_char_boundary(mid) {
                                mid += 1;
                            }
                            it.set_offset(mid);
                        }
                    }
                }
                // resets to every token start, from the back: the first token from there and the
                // position of its start
                if dense && bad.is_none() {
                    let starts: Vec<usize> = sc.find_iter(input).map(|m| m.start()).collect();
                    for &s0 in starts.iter().rev() {
                        it.set_offset(s0);
                        match it.next() {
                            Some(m) => {
                                count += 1;
                                let (s, e) = (m.start(), m.end());
                                let sp = (m.start_position().line, m.start_position().column);
                                let ep = (m.end_position().line, m.end_position().column);
                                if s != s0 || sp != truth(s) || (ep != truth(e) && Some(ep) != lenient(e)) {
                                    bad = Some(format!("after set_offset({s0}) the next token is {s}..{e} with positions {sp:?}..{ep:?}, true {:?}..{:?}", truth(s), truth(e)));
                                    break;
                                }
                                let p = it.position(s0);
                                if (p.line, p.column) != truth(s0) {
                                    bad = Some(format!("after set_offset({s0}) and next(), position({s0}) is {:?}, true {:?}", (p.line, p.column), truth(s0)));
                                    break;
                                }
                            }
                            None => {
                                bad = Some(format!("after set_offset({s0}) no token is delivered"));
                                break;
                            }
                        }
                    }
                }
                (bad, count)
            });
            match r {
                Ok((b, c)) => {
                    bad = b;
                    n_tok += c;
                }
                Err(p) => bad = Some(format!("panicked: {p}")),
            }
            total.pairs += 1;
            total.transitions += 1;
            if let Some(b) = bad {
                total.viol.add("", || Violation { key: String::new(), summary: format!("long input ({name}): {b}"), replay: json!({"configuration": cfg.to_json(), "input": name, "input_bytes": input.len(), "calls": ["find_iter(input).with_positions()", "next() until None", "position(o) for some scanned o", "set_offset(len/2)", "next() until None"], "disagreement": b}) });
            }
        }
        fam_json.push(json!({"family": "long inputs: 70 000 lines, a 70 000 byte line, 300 empty lines; full pass, position queries, reset into the middle, second pass; 120 short lines and one token over k lines + a run of k empty lines as one token for k in 0..40, 63..65, 127..129, 255..257: additionally position(o) for every boundary after each pass and a reset to every token start from the back", "cases": inputs_long.len(), "token_positions_compared": n_tok}));
    }
    let n_dis = total.viol.total();
    std::mem::take(&mut total.viol).flush(&mut run);
    let mut cov = Map::new();
    cov.insert("states".into(), json!(total.states));
    cov.insert("transitions".into(), json!(total.transitions));
    // every transition IS a call of the real method compared with the model
    cov.insert("traces_validated_against_impl".into(), json!(total.transitions));
    cov.insert("samples".into(), json!(total.samples.items));
    cov.insert("evaluations".into(), json!(total.pairs));
    cov.insert("distinct_nontrivial".into(), json!(total.nontrivial));
    cov.insert("rule".into(), json!("one evaluation = one (configuration, input) pair whose history space is searched to closure (BFS, states = snapshot of the real iterator fields + model state); non-trivial = next() returned more than two distinct results across the histories of the pair"));
    cov.insert("exhaustive".into(), json!(total.capped == 0));
    cov.insert("pairs_capped".into(), json!(total.capped));
    cov.insert("max_states_per_pair".into(), json!(total.max_states));
    cov.insert("longest_shortest_history".into(), json!(total.max_depth));
    cov.insert("families".into(), json!(fam_json));
    cov.insert("disagreeing_pairs".into(), json!(n_dis));
    cov.insert("disagreements_belonging_to_other_properties".into(), json!(total.others));
    cov.insert("peek_results_by_class(Matches,ReachedEnd,ModeSwitch,NotFound)".into(), json!(total.peek_classes));
    cov.insert("build_errors".into(), json!(total.build_errors));
    run.finish(
        "model_checking",
        cov,
        &[
            "the snapshot hook exposes every mutable field of FindMatchesImpl/ScannerImpl; equal snapshots (plus equal model state) have equal futures; the quick tier leaves the simulation scratch buffers (cleared at the start of every match attempt) out of the key, the thorough tier includes them",
            "values outside the specified domains are never generated: set_mode to a missing mode, offsets inside a character, advance_to of a number that is not the end of a just peeked match",
            "position(o) is compared for offsets inside the contiguously scanned prefix only",
        ],
    )
}
