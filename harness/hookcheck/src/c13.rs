//! C13: the scanner cache is transparent (E5 `cachecheck`): BFS over cache states (sets of built
//! configurations of a family of equal / near-identical / unrelated / failing configurations);
//! every build() is compared with build_uncached() of the same configuration.

use bridge::{catch, CMode, CPat, Cfg};
use refsem::evidence::{Run, Samples, Tier, ViolAcc, Violation};
use refsem::families::inputs;
use scnr::verif::{cache_clear, cache_keys, ScannerDump};
use scnr::{Scanner, ScannerBuilder, ScannerModeSwitcher};
use serde_json::{json, Map};
use std::collections::{BTreeSet, VecDeque};

fn la(p: &str, tt: usize, pos: bool, l: &str) -> CPat {
    CPat::new(p, tt).with_la(pos, l)
}

fn base() -> Cfg {
    Cfg {
        modes: vec![
            CMode { name: "INITIAL".into(), pats: vec![la("a", 0, true, "b"), CPat::new("b", 1), CPat::new("[ab]+c", 2)], transitions: vec![(1, 1)] },
            CMode { name: "SECOND".into(), pats: vec![CPat::new("b+", 0), CPat::new("a", 1)], transitions: vec![(1, 0)] },
        ],
    }
}

/// `(label, configuration, builds?)`
pub fn family() -> Vec<(String, Cfg, bool)> {
    let b = base();
    let mut v: Vec<(String, Cfg, bool)> = vec![("base".into(), b.clone(), true)];
    let mut add = |label: &str, f: &dyn Fn(&mut Cfg), ok: bool| {
        let mut c = b.clone();
        f(&mut c);
        v.push((label.to_string(), c, ok));
    };
    add("token type of one pattern", &|c| c.modes[0].pats[2].tt = 7, true);
    add("pattern order swapped", &|c| c.modes[0].pats.swap(1, 2), true);
    add("lookahead removed", &|c| c.modes[0].pats[0].la = None, true);
    add("lookahead polarity flipped", &|c| c.modes[0].pats[0].la = Some((false, "b".into())), true);
    add("lookahead text changed (same length)", &|c| c.modes[0].pats[0].la = Some((true, "c".into())), true);
    add("transition removed", &|c| c.modes[0].transitions.clear(), true);
    add("transition retargeted", &|c| c.modes[0].transitions = vec![(1, 0)], true);
    add("transition on another token type", &|c| c.modes[0].transitions = vec![(2, 1)], true);
    add("mode name changed", &|c| c.modes[1].name = "SECOND2".into(), true);
    add("last pattern dropped (prefix of the base list)", &|c| {
        c.modes[0].pats.pop();
    }, true);
    add("pattern appended (base list is a prefix)", &|c| c.modes[0].pats.push(CPat::new("c", 3)), true);
    add("second mode dropped", &|c| {
        c.modes.pop();
        c.modes[0].transitions.clear();
    }, true);
    add("third mode appended", &|c| c.modes.push(CMode { name: "THIRD".into(), pats: vec![CPat::new("c", 0)], transitions: vec![] }), true);
    add("modes swapped", &|c| c.modes.swap(0, 1), true);
    add("pattern text changed at the end", &|c| c.modes[0].pats[2].pat = "[ab]+b".into(), true);
    add("lookahead added to another pattern", &|c| c.modes[0].pats[1].la = Some((false, "b".into())), true);
    add("second mode pattern token type", &|c| c.modes[1].pats[1].tt = 2, true);
    add("syntax error in the second mode", &|c| c.modes[1].pats[0].pat = "b+(".into(), false);
    add("unsupported construct in a lookahead", &|c| c.modes[0].pats[0].la = Some((true, "^b".into())), false);
    add("unknown class", &|c| c.modes[0].pats[1].pat = "\\p{Foo}".into(), false);
    add("plain fallback with the regex of the guarded first pattern appended", &|c| c.modes[0].pats.push(CPat::new("a", 3)), true);
    add("guarded pattern (negative lookahead) and its plain fallback", &|c| {
        c.modes[0].pats[0].la = Some((false, "b".into()));
        c.modes[0].pats.push(CPat::new("a", 3));
    }, true);
    add("one regex twice without lookahead (second can never win)", &|c| c.modes[1].pats.push(CPat::new("b+", 5)), true);
    add("second mode reuses token type 0 with another lookahead", &|c| c.modes[1].pats[0] = la("b+", 0, false, "a"), true);
    add("second mode reuses token type 0 with the same lookahead text, other polarity", &|c| c.modes[1].pats[0] = la("b+", 0, false, "b"), true);
    add("unknown class in the first pattern, syntax error in a later mode", &|c| {
        c.modes[0].pats[0].pat = "\\pX".into();
        c.modes[1].pats[1].pat = "a)".into();
    }, false);
    add("unknown class, then an unsupported lookahead of a later pattern", &|c| {
        c.modes[0].pats[0] = CPat::new("[\\p{Foo}a]", 0);
        c.modes[0].pats[2].la = Some((false, "a$".into()));
    }, false);
    add("second mode has the pattern list of the first, its own transitions", &|c| c.modes[1].pats = c.modes[0].pats.clone(), true);
    add("third mode equal to the first but for its name and transitions", &|c| {
        let mut m = c.modes[0].clone();
        m.name = "THIRD".into();
        m.transitions = vec![(2, 1)];
        c.modes.push(m);
        c.modes[1].transitions = vec![(0, 2), (1, 0)];
    }, true);
    add("syntax error in a third mode no transition leads to", &|c| c.modes.push(CMode { name: "THIRD".into(), pats: vec![CPat::new("c(", 0)], transitions: vec![] }), false);
    add("third mode no transition leads to, with a transition back", &|c| c.modes.push(CMode { name: "THIRD".into(), pats: vec![CPat::new("c", 0), CPat::new("[ab]", 4)], transitions: vec![(0, 0)] }), true);
    v.push(("no modes at all".into(), Cfg { modes: vec![] }, true));
    v.push(("one mode without patterns".into(), Cfg { modes: vec![CMode { name: "INITIAL".into(), pats: vec![], transitions: vec![] }] }, true));
    v.push(("unrelated".into(), Cfg::single(vec![CPat::new("c+", 0), CPat::new("[ab]", 1)]), true));
    // the add_patterns twin: SimpleScannerBuilder names the mode INITIAL and numbers token types
    v.push(("twin of add_patterns([\"a\",\"b\"])".into(), Cfg { modes: vec![CMode { name: "INITIAL".into(), pats: vec![CPat::new("a", 0), CPat::new("b", 1)], transitions: vec![] }] }, true));
    v.push(("same patterns as the twin, other token types".into(), Cfg { modes: vec![CMode { name: "INITIAL".into(), pats: vec![CPat::new("a", 1), CPat::new("b", 0)], transitions: vec![] }] }, true));
    v
}

/// Observable behaviour of a scanner: dump (transition lists sorted), mode names, token streams
/// (with the mode after every token) on all inputs.
#[derive(PartialEq, Clone, Debug)]
struct Behaviour {
    dump: ScannerDump,
    names: Vec<Option<String>>,
    streams: Vec<Vec<(usize, usize, usize, usize)>>,
}

fn normalise(mut d: ScannerDump) -> ScannerDump {
    fn norm(d: &mut scnr::verif::DfaDump) {
        for s in d.states.iter_mut() {
            s.sort();
        }
        for l in d.lookaheads.iter_mut() {
            norm(&mut l.2);
        }
    }
    for m in d.modes.iter_mut() {
        norm(&mut m.dfa);
    }
    d
}

fn behaviour(sc: &Scanner, ins: &[String]) -> Behaviour {
    Behaviour {
        dump: normalise(sc.verif_dump()),
        names: (0..4).map(|i| sc.mode_name(i).map(|s| s.to_string())).collect(),
        // a scanner without any mode cannot scan (unspecified); it is compared by its names only
        streams: ins
            .iter()
            .filter(|_| sc.mode_name(0).is_some())
            .flat_map(|i| (0..4usize).filter(|k| sc.mode_name(*k).is_some()).map(move |k| (i, k)))
            .map(|(i, start_mode)| {
                // from every start mode (set_mode on the iterator): modes no transition leads to are
                // part of the configuration as well
                let mut it = sc.find_iter(i);
                it.set_mode(start_mode);
                let mut v = vec![];
                // what peek_n(3) announces before every token is part of the behaviour (encoded into
                // the stream as a pseudo token with type usize::MAX and a hash of the peek result)
                let peek_hash = |it: &mut scnr::FindMatches| {
                    let s = format!("{:?}", it.peek_n(3));
                    let mut h = 0xcbf29ce484222325u64;
                    for b in s.bytes() {
                        h = (h ^ b as u64).wrapping_mul(0x100000001b3);
                    }
                    (usize::MAX, (h >> 32) as usize, (h & 0xffff_ffff) as usize, 0usize)
                };
                v.push(peek_hash(&mut it));
                while let Some(m) = it.next() {
                    v.push((m.token_type(), m.start(), m.end(), it.current_mode()));
                    v.push(peek_hash(&mut it));
                }
                v
            })
            .collect(),
    }
}

fn diff(a: &Behaviour, b: &Behaviour, ins: &[String]) -> String {
    if a.names != b.names {
        return format!("mode names {:?} vs {:?}", a.names, b.names);
    }
    let n_modes = a.names.iter().filter(|n| n.is_some()).count().max(1);
    for (k, (x, y)) in a.streams.iter().zip(b.streams.iter()).enumerate() {
        if x != y {
            return format!("on input {:?}, started in mode {} by set_mode, the cached scanner yields (type,start,end,mode after) {:?}, the uncached one {:?}", ins[k / n_modes], k % n_modes, x, y);
        }
    }
    "?".into()
}

/// Child process: builds configurations of 1 100, 2 500 and 4 300 patterns through the cache (twice
/// each, plus a near twin) and compares them with their uncached builds; prints one JSON line.
pub fn large_probe() -> ! {
    let mut problems: Vec<String> = vec![];
    for (n, per_mode) in [(1_100usize, 100usize), (2_500, 2_500), (4_300, 430)] {
        let make = |renamed: Option<usize>| -> Cfg {
            let mut modes = vec![];
            let mut k = 0;
            while k < n {
                let pats: Vec<CPat> = (k..(k + per_mode).min(n)).map(|i| CPat::new(&if Some(i) == renamed { format!("q{:05}", i) } else { format!("k{:05}", i) }, i)).collect();
                modes.push(CMode { name: format!("M{}", modes.len()), pats, transitions: vec![] });
                k += per_mode;
            }
            Cfg { modes }
        };
        for (what, cfg, probe, tt) in [("the list", make(None), format!("k{:05}", n / 2), n / 2), ("the list again", make(None), format!("k{:05}", n - 1), n - 1), ("the list with one keyword renamed", make(Some(n / 2)), format!("q{:05}", n / 2), n / 2)] {
            let mode = tt / per_mode;
            let scan = |sc: &Scanner| -> Vec<(usize, usize, usize)> {
                let mut it = sc.find_iter(&probe);
                scnr::ScannerModeSwitcher::set_mode(&mut it, mode);
                it.map(|m| (m.token_type(), m.start(), m.end())).collect()
            };
            let r = catch(|| (cfg.build_cached().map(|sc| scan(&sc)).map_err(|e| e.to_string()), cfg.build_uncached().map(|sc| scan(&sc)).map_err(|e| e.to_string())));
            match r {
                Ok((a, b)) if a == b => {}
                Ok((a, b)) => problems.push(format!("{n} patterns in modes of {per_mode}, {what}: build() gives {a:?} on {probe:?} in mode {mode}, build_uncached() gives {b:?}")),
                Err(p) => problems.push(format!("{n} patterns in modes of {per_mode}, {what}: panicked: {p}")),
            }
        }
    }
    println!("{}", json!({"problems": problems}));
    std::process::exit(0);
}

pub fn run(tier: Tier) -> ! {
    let mut run = Run::new("C13", tier);
    let fam = family();
    let ins = inputs(&['a', 'b', 'c'], 4);
    let mut viol = ViolAcc::default();
    // expected behaviour of every member without the cache
    let mut expected: Vec<Option<Behaviour>> = vec![];
    for (label, cfg, ok) in &fam {
        match catch(|| cfg.build_uncached()) {
            Ok(Ok(sc)) => {
                if !ok {
                    refsem::evidence::machinery(&format!("family member {label:?} was expected to fail but builds"));
                }
                expected.push(Some(behaviour(&sc, &ins)));
            }
            Ok(Err(_)) => {
                if *ok {
                    refsem::evidence::machinery(&format!("family member {label:?} does not build uncached (C15's business)"));
                }
                expected.push(None);
            }
            Err(p) => {
                viol.add("", || Violation { key: String::new(), summary: format!("build_uncached of {label:?} panicked: {p}"), replay: json!({"configuration": cfg.to_json()}) });
                expected.push(None);
            }
        }
    }
    let n = fam.len();
    let good: Vec<usize> = (0..n).filter(|&i| fam[i].2).collect();
    // states: subsets of good members, as sorted index lists; limited by size in the quick tier
    let max_size = if tier == Tier::Quick { 2 } else { 3 };
    let core: Vec<usize> = good.iter().copied().take(9).collect(); // full powerset over the first 9 good members (thorough)
    let mut states: BTreeSet<Vec<usize>> = BTreeSet::new();
    let mut queue: VecDeque<Vec<usize>> = VecDeque::new();
    states.insert(vec![]);
    queue.push_back(vec![]);
    let (mut n_states, mut n_trans, mut hits, mut misses, mut fails) = (0usize, 0usize, 0usize, 0usize, 0usize);
    let mut samples = Samples::new(6);
    let mut key_conformance = 0usize;
    let mut key_mismatch = 0usize;
    let mut dump_differs = 0usize;
    'bfs: while let Some(s) = queue.pop_front() {
        n_states += 1;
        for k in 0..n {
            n_trans += 1;
            // reach the state: clear + build its members in ascending order, then build k
            let r = catch(|| {
                cache_clear();
                for &m in &s {
                    let _ = fam[m].1.build_cached();
                }
                let keys_before = cache_keys().len();
                let built = fam[k].1.build_cached();
                // the same build once more: its outcome must not change (a failing build fails again)
                let again = fam[k].1.build_cached();
                let again_same = match (&built, &again) {
                    (Ok(a), Ok(b)) => behaviour(a, &ins) == behaviour(b, &ins),
                    (Err(_), Err(_)) => true,
                    _ => false,
                };
                if !again_same {
                    return (usize::MAX, built.is_ok(), None, vec![]);
                }
                let keys_after = cache_keys();
                let beh = built.as_ref().ok().map(|sc| behaviour(sc, &ins));
                // a later build of every member of the state is still what it should be
                (keys_before, built.is_ok(), beh, keys_after)
            });
            let describe = |what: &str| {
                let calls: Vec<String> = std::iter::once("scnr::verif::cache_clear()".to_string())
                    .chain(s.iter().map(|&m| format!("build() of {:?}", fam[m].0)))
                    .chain(std::iter::once(format!("build() of {:?}  <-- compared with build_uncached()", fam[k].0)))
                    .collect();
                let cfgs: Vec<serde_json::Value> = s.iter().chain(std::iter::once(&k)).map(|&m| json!({"label": fam[m].0, "modes": fam[m].1.to_json()})).collect();
                json!({"calls": calls, "configurations": cfgs, "disagreement": what})
            };
            match r {
                Err(p) => {
                    viol.add("", || Violation { key: String::new(), summary: format!("after building {:?}, build() of {:?} panicked: {p}", s.iter().map(|&m| &fam[m].0).collect::<Vec<_>>(), fam[k].0), replay: describe(&format!("panic: {p}")) });
                    // the lock may be poisoned now: every later build would panic
                    break 'bfs;
                }
                Ok((keys_before, _, _, _)) if keys_before == usize::MAX => {
                    viol.add("", || Violation { key: String::new(), summary: format!("after building {:?}, two consecutive build() calls of {:?} disagree (Ok/Err or behaviour)", s.iter().map(|&m| &fam[m].0).collect::<Vec<_>>(), fam[k].0), replay: describe("the second of two identical consecutive builds differs from the first") });
                }
                Ok((keys_before, ok, beh, keys_after)) => {
                    let in_state = s.contains(&k);
                    if fam[k].2 {
                        if in_state { hits += 1 } else { misses += 1 }
                    } else {
                        fails += 1;
                    }
                    // Conformance of the state abstraction (not a verdict: a cache that evicts or
                    // canonicalises keys may hold fewer entries and still be transparent).
                    let want_keys = s.len() + usize::from(fam[k].2 && !in_state);
                    if keys_before == s.len() && keys_after.len() == want_keys {
                        key_conformance += 1;
                    } else {
                        key_mismatch += 1;
                    }
                    match (&expected[k], ok, beh) {
                        (None, false, _) => {}
                        (None, true, _) => viol.add("", || Violation { key: String::new(), summary: format!("build() of the failing configuration {:?} returned a scanner after {:?} were built", fam[k].0, s.iter().map(|&m| &fam[m].0).collect::<Vec<_>>()), replay: describe("Ok instead of Err") }),
                        (Some(_), false, _) => viol.add("", || Violation { key: String::new(), summary: format!("build() of {:?} returned an error after {:?} were built; build_uncached() succeeds", fam[k].0, s.iter().map(|&m| &fam[m].0).collect::<Vec<_>>()), replay: describe("Err instead of Ok") }),
                        (Some(want), true, Some(got)) => {
                            // behaviour decides; a structurally different but equivalent automaton
                            // (e.g. another state numbering) is not a violation, only counted
                            if want.dump != got.dump {
                                dump_differs += 1;
                            }
                            if want.names != got.names || want.streams != got.streams {
                                let d = diff(&got, want, &ins);
                                viol.add("", || Violation { key: String::new(), summary: format!("build() of {:?} after {:?}: {d}", fam[k].0, s.iter().map(|&m| &fam[m].0).collect::<Vec<_>>()), replay: describe(&d) });
                            }
                        }
                        (Some(_), true, None) => unreachable!(),
                    }
                    if samples.items.len() < 6 && s.len() == 2 {
                        samples.push(|| json!({"state": s.iter().map(|&m| fam[m].0.clone()).collect::<Vec<_>>(), "then_build": fam[k].0}));
                    }
                    // successor state
                    if fam[k].2 && !in_state {
                        let mut t = s.clone();
                        t.push(k);
                        t.sort();
                        let allowed = t.len() <= max_size || (tier == Tier::Thorough && t.iter().all(|m| core.contains(m)));
                        if allowed && states.insert(t.clone()) {
                            queue.push_back(t);
                        }
                    }
                }
            }
        }
        if viol.total() > 200 {
            break;
        }
    }
    // failing builds inside histories: clear, build at most one good member, then a failing member
    // (which must fail), then any member: the failure must not affect the later build, whether that
    // one hits or misses the cache
    let failing: Vec<usize> = (0..n).filter(|&i| !fam[i].2).collect();
    let mut after_failure = 0usize;
    'ff: for &f in &failing {
        for first in std::iter::once(None).chain(good.iter().copied().map(Some)) {
            for k in 0..n {
                n_trans += 1;
                after_failure += 1;
                let r = catch(|| {
                    cache_clear();
                    if let Some(g) = first {
                        let _ = fam[g].1.build_cached();
                    }
                    let failed = fam[f].1.build_cached().is_err();
                    let built = fam[k].1.build_cached();
                    (failed, built.is_ok(), built.ok().map(|sc| behaviour(&sc, &ins)))
                });
                let history = || {
                    let mut calls = vec!["scnr::verif::cache_clear()".to_string()];
                    if let Some(g) = first {
                        calls.push(format!("build() of {:?}", fam[g].0));
                    }
                    calls.push(format!("build() of {:?} (fails)", fam[f].0));
                    calls.push(format!("build() of {:?}  <-- compared with build_uncached()", fam[k].0));
                    let cfgs: Vec<serde_json::Value> = first.iter().chain([&f, &k]).map(|&m| json!({"label": fam[m].0, "modes": fam[m].1.to_json()})).collect();
                    json!({"calls": calls, "configurations": cfgs})
                };
                let problem = match r {
                    Err(p) => Some(format!("panicked: {p}")),
                    Ok((false, _, _)) => Some("the failing configuration built".to_string()),
                    Ok((true, ok, beh)) => match (&expected[k], ok, beh) {
                        (None, false, _) => None,
                        (None, true, _) => Some("returned a scanner for a failing configuration".to_string()),
                        (Some(_), false, _) => Some("returned an error; build_uncached() succeeds".to_string()),
                        (Some(want), true, Some(got)) => {
                            if want.names != got.names || want.streams != got.streams {
                                Some(diff(&got, want, &ins))
                            } else {
                                None
                            }
                        }
                        (Some(_), true, None) => unreachable!(),
                    },
                };
                if let Some(p) = problem {
                    let poisoned = p.starts_with("panicked");
                    viol.add("", || Violation { key: String::new(), summary: format!("after {}the failing build of {:?}, build() of {:?}: {p}", first.map(|g| format!("building {:?} and ", fam[g].0)).unwrap_or_default(), fam[f].0, fam[k].0).chars().take(600).collect(), replay: history() });
                    if poisoned || viol.total() > 200 {
                        break 'ff;
                    }
                }
            }
        }
    }
    // the simple builder shares the cache with its twin: add_patterns(["a","b"]) before/after the twin
    let twin = fam.iter().position(|f| f.0.starts_with("twin")).unwrap();
    for order in [true, false] {
        n_trans += 1;
        let r = catch(|| {
            cache_clear();
            if order {
                let _ = fam[twin].1.build_cached();
            }
            let simple = ScannerBuilder::new().add_patterns(["a", "b"]).build().map(|sc| behaviour(&sc, &ins)).map_err(|e| e.to_string());
            let other = fam[twin + 1].1.build_cached().map(|sc| behaviour(&sc, &ins));
            (simple, other)
        });
        match r {
            Ok((Ok(simple), Ok(other))) => {
                let same = |a: &Behaviour, b: Option<&Behaviour>| b.is_some_and(|b| a.names == b.names && a.streams == b.streams);
                if !same(&simple, expected[twin].as_ref()) || !same(&other, expected[twin + 1].as_ref()) {
                    viol.add("", || Violation { key: String::new(), summary: "add_patterns([\"a\",\"b\"]).build() and its near twin do not behave like their uncached builds".into(), replay: json!({"calls": ["cache_clear()", if order { "build() of the twin" } else { "-" }, "ScannerBuilder::new().add_patterns([\"a\",\"b\"]).build()", "build() of the same patterns with token types 1,0"]}) });
                }
            }
            other => viol.add("", || Violation { key: String::new(), summary: format!("add_patterns build failed: {other:?}").chars().take(300).collect(), replay: json!({"calls": ["add_patterns([\"a\",\"b\"]).build()"]}) }),
        }
    }
    // one long history without any clear: N distinct small configurations are built one after the
    // other; after every build the first, the middle and the previous one are built again, at every
    // power of two (+-1) and at the end all of them (forwards, then backwards). A cache with a
    // capacity, an eviction order or a rehash threshold anywhere below N shows here.
    let n_long = if tier == Tier::Quick { 1_100usize } else { 70_000 };
    let long_ins: Vec<String> = vec!["ab".into(), "ba".into(), "".into()];
    let long_cfg = |i: usize| Cfg { modes: vec![CMode { name: if i % 2 == 0 { "M0".into() } else { "SECOND".into() }, pats: vec![CPat::new("a", i), CPat::new("b", i + 1)], transitions: vec![] }] };
    let long_want = |i: usize| -> Vec<Vec<(usize, usize, usize)>> { vec![vec![(i, 0, 1), (i + 1, 1, 2)], vec![(i + 1, 0, 1), (i, 1, 2)], vec![]] };
    let mut long_builds = 0usize;
    {
        let _ = catch(cache_clear);
        let mut check = |i: usize, k: usize, viol: &mut ViolAcc| -> bool {
            long_builds += 1;
            let r = catch(|| long_cfg(i).build_cached().map(|sc| (sc.mode_name(0).map(|s| s.to_string()), long_ins.iter().map(|x| sc.find_iter(x).map(|m| (m.token_type(), m.start(), m.end())).collect::<Vec<_>>()).collect::<Vec<_>>())));
            let want_name = Some(if i % 2 == 0 { "M0".to_string() } else { "SECOND".to_string() });
            let ok = matches!(&r, Ok(Ok((name, streams))) if *name == want_name && *streams == long_want(i));
            if !ok {
                viol.add("", || Violation {
                    key: String::new(),
                    summary: format!("long history: after building configurations #0..#{k} (one mode, `a`=>i, `b`=>i+1), build() of #{i} gives {:?}; expected mode name {want_name:?} and token types {i},{}", r.as_ref().map(|x| x.as_ref().map_err(|e| e.to_string())), i + 1).chars().take(500).collect(),
                    replay: json!({"calls": [format!("build() of configurations #0..#{k} in this order (configuration #i: one mode named M0 (i even) / SECOND (i odd), patterns a=>i, b=>i+1), with re-builds of #0, #k/2, #k-1 after each"), format!("build() of #{i}")], "inputs": long_ins, "expected_token_types": [i, i + 1]}),
                });
            }
            ok
        };
        'long: for k in 0..n_long {
            if !check(k, k, &mut viol) {
                break;
            }
            for j in [0, k / 2, k.saturating_sub(1)] {
                if !check(j, k, &mut viol) {
                    break 'long;
                }
            }
            let c = k + 1; // configurations built so far
            if c >= 15 && (c.is_power_of_two() || (c - 1).is_power_of_two() || (c + 1).is_power_of_two()) && c < 5_000 {
                for j in 0..=k {
                    if !check(j, k, &mut viol) {
                        break 'long;
                    }
                }
            }
        }
        if viol.total() == 0 {
            for j in (0..n_long).chain((0..n_long).rev()) {
                if !check(j, n_long - 1, &mut viol) {
                    break;
                }
            }
        }
    }
    n_trans += long_builds;
    // the same configuration built again and again (hit counters, reference counts, recency lists):
    // 70 000 builds of one member, every one compared on one input, then the other members once more
    let mut repeat_builds = 0usize;
    {
        let unrelated = fam.iter().position(|f| f.0 == "unrelated").unwrap();
        let want: Vec<(usize, usize, usize)> = vec![(1, 0, 1), (0, 1, 3), (1, 3, 4)];
        for k in 0..70_000usize {
            repeat_builds += 1;
            let r = catch(|| fam[unrelated].1.build_cached().map(|sc| sc.find_iter("acca").map(|m| bridge::tok(&m)).collect::<Vec<_>>()));
            if !matches!(&r, Ok(Ok(v)) if *v == want) {
                viol.add("", || Violation { key: String::new(), summary: format!("build #{} of one and the same configuration gives {:?}, expected tokens {want:?}", k + 1, r.as_ref().map(|x| x.as_ref().map_err(|e| e.to_string()))).chars().take(400).collect(), replay: json!({"configuration": fam[unrelated].1.to_json(), "calls": [format!("build() {} times", k + 1), "find_iter(\"acca\").collect()"]}) });
                break;
            }
        }
        for (i, (label, cfg, ok)) in fam.iter().enumerate() {
            repeat_builds += 1;
            let r = catch(|| cfg.build_cached().map(|sc| behaviour(&sc, &ins)));
            let good = match (&r, ok) {
                (Ok(Ok(b)), true) => expected[i].as_ref().is_some_and(|w| w.names == b.names && w.streams == b.streams),
                (Ok(Err(_)), false) => true,
                _ => false,
            };
            if !good {
                viol.add("", || Violation { key: String::new(), summary: format!("after 70 000 builds of one configuration, build() of family member {label:?} no longer behaves like its uncached build ({})", match &r { Err(p) => format!("panic: {p}"), Ok(Err(e)) => format!("error: {e}"), Ok(Ok(_)) => "other behaviour".into() }).chars().take(400).collect(), replay: json!({"calls": ["build() of the member `unrelated` 70 000 times", format!("build() of {label:?}")], "configuration": cfg.to_json()}) });
                break;
            }
        }
    }
    n_trans += repeat_builds;
    // the simple builder: pattern lists whose texts are equal when joined (`a|b`,`c` / `a`,`b|c` /
    // `a|b|c` / `a`,`b`,`c`), and lists that differ in order only, built through add_patterns().build()
    // in every order; each must behave like the uncached build of its documented equivalent (one
    // mode INITIAL, token type = index)
    {
        let lists: Vec<Vec<&str>> = vec![vec!["a|b", "c"], vec!["a", "b|c"], vec!["a|b|c"], vec!["a", "b", "c"], vec!["c", "b", "a"], vec!["a", "bc"], vec!["ab", "c"]];
        let uncached: Vec<Option<Behaviour>> = lists.iter().map(|l| catch(|| Cfg { modes: vec![CMode { name: "INITIAL".into(), pats: l.iter().enumerate().map(|(i, p)| CPat::new(p, i)).collect(), transitions: vec![] }] }.build_uncached().map(|sc| behaviour(&sc, &ins))).ok().and_then(|r| r.ok())).collect();
        // all ordered pairs and all rotations of the whole list
        let mut orders: Vec<Vec<usize>> = vec![];
        for i in 0..lists.len() {
            for j in 0..lists.len() {
                if i != j {
                    orders.push(vec![i, j]);
                }
            }
            orders.push((0..lists.len()).map(|k| (k + i) % lists.len()).collect());
        }
        'orders: for order in orders {
            let _ = catch(cache_clear);
            for &k in &order {
                n_trans += 1;
                let got = catch(|| ScannerBuilder::new().add_patterns(lists[k].clone()).build().map(|sc| behaviour(&sc, &ins))).ok().and_then(|r| r.ok());
                let same = match (&got, &uncached[k]) {
                    (Some(g), Some(w)) => g.names == w.names && g.streams == w.streams,
                    (None, None) => true,
                    _ => false,
                };
                if !same {
                    let d = match (&got, &uncached[k]) {
                        (Some(g), Some(w)) => diff(g, w, &ins),
                        _ => "one of the two builds failed".to_string(),
                    };
                    viol.add("", || Violation { key: String::new(), summary: format!("add_patterns({:?}).build() after add_patterns builds of {:?}: {d}", lists[k], order.iter().take_while(|&&x| x != k).map(|&x| &lists[x]).collect::<Vec<_>>()).chars().take(600).collect(), replay: json!({"calls": std::iter::once("scnr::verif::cache_clear()".to_string()).chain(order.iter().map(|&x| format!("ScannerBuilder::new().add_patterns({:?}).build()", lists[x]))).collect::<Vec<_>>(), "compared": format!("the build of {:?} with its build_uncached()", lists[k]), "disagreement": d}) });
                    break 'orders;
                }
            }
        }
    }
    // large configurations through the cache, in a child process with a watchdog
    let large = {
        let exe = std::env::current_exe().expect("own path");
        let out = (|| -> std::io::Result<std::process::Output> {
            let mut child = std::process::Command::new(&exe).arg("c13-large-probe").stdout(std::process::Stdio::piped()).stderr(std::process::Stdio::null()).spawn()?;
            let limit = std::time::Duration::from_secs(if tier == Tier::Quick { 240 } else { 600 });
            let started = std::time::Instant::now();
            loop {
                if child.try_wait()?.is_some() {
                    return child.wait_with_output();
                }
                if started.elapsed() > limit {
                    let _ = child.kill();
                    let _ = child.wait();
                    return Err(std::io::Error::new(std::io::ErrorKind::TimedOut, "watchdog"));
                }
                std::thread::sleep(std::time::Duration::from_millis(50));
            }
        })();
        n_trans += 9;
        let how = json!({"calls": ["build() and build_uncached() of 1 100 patterns in 11 modes, of 2 500 patterns in one mode, of 4 300 patterns in 10 modes; each list twice and once with one keyword renamed", "scan of one keyword in its mode"], "how": "harness/hookcheck c13-large-probe (child process)"});
        match out {
            Err(e) if e.kind() == std::io::ErrorKind::TimedOut => {
                viol.add("", || Violation { key: String::new(), summary: "large configurations through build(): the child process (normally about 20 s) did not finish within the watchdog limit - a build() does not return".into(), replay: how.clone() });
                json!({"outcome": "killed by the watchdog"})
            }
            Err(e) => refsem::evidence::machinery(&format!("cannot run the large-configuration probe: {e}")),
            Ok(o) => match serde_json::from_slice::<serde_json::Value>(&o.stdout) {
                Ok(v) => {
                    for p in v["problems"].as_array().cloned().unwrap_or_default() {
                        let p = p.as_str().unwrap_or("").to_string();
                        viol.add("", || Violation { key: String::new(), summary: format!("large configurations through build(): {p}").chars().take(600).collect(), replay: how.clone() });
                    }
                    json!({"outcome": "finished", "problems": v["problems"].as_array().map(|a| a.len()).unwrap_or(0)})
                }
                Err(_) => {
                    // the child died (stack overflow / abort) inside one of the builds
                    viol.add("", || Violation { key: String::new(), summary: format!("large configurations through build(): the child process ended with {:?} (crash inside build(), e.g. unbounded recursion)", o.status), replay: how.clone() });
                    json!({"outcome": format!("{:?}", o.status)})
                }
            },
        }
    };
    // (after a panic inside the lock the cache is poisoned and the hook itself panics)
    let _ = catch(cache_clear);
    let n_dis = viol.total();
    viol.flush(&mut run);
    let mut cov = Map::new();
    cov.insert("states".into(), json!(n_states));
    cov.insert("transitions".into(), json!(n_trans));
    cov.insert("traces_validated_against_impl".into(), json!(key_conformance));
    cov.insert("samples".into(), json!(samples.items));
    cov.insert("evaluations".into(), json!(n_trans));
    cov.insert("distinct_nontrivial".into(), json!(hits + misses));
    cov.insert("rule".into(), json!("state = set of successfully built family members in the process-wide cache (reached by clear + builds in ascending order; the hook's key count is compared with the model's set size at every transition = conformance of the state abstraction); transition = build() of any member, compared with build_uncached() by mode names and token streams (type, span, mode after every token) on {a,b,c}^<=4; the automata dumps are compared as well but only counted; non-trivial = the built member is buildable (hit or miss)"));
    cov.insert("exhaustive".into(), json!(true));
    cov.insert("family".into(), json!(fam.iter().map(|f| json!({"label": f.0, "builds": f.2})).collect::<Vec<_>>()));
    cov.insert("state_space".into(), json!(format!("all subsets of the {} buildable members of size <= {max_size}{}", good.len(), if tier == Tier::Thorough { " plus the full powerset of the first 9" } else { "" })));
    cov.insert("transitions_where_the_cache_key_set_differs_from_the_model".into(), json!(key_mismatch));
    cov.insert("transitions_where_cached_and_uncached_automata_differ_structurally_(informational)".into(), json!(dump_differs));
    cov.insert("long_history".into(), json!({"distinct_configurations": n_long, "build_calls": long_builds, "shape": "no clear; after every build the first, middle and previous configuration again; all of them at every power of two +-1 below 5000 and at the end forwards and backwards"}));
    cov.insert("builds_compared_directly_after_a_failing_build".into(), json!(after_failure));
    cov.insert("repeated_builds_of_one_configuration".into(), json!({"build_calls": repeat_builds, "shape": "70 000 consecutive build() calls of one member, each scanned; then every family member once more"}));
    cov.insert("comparison".into(), json!("mode names and, for every input and every start mode (set_mode on the iterator, so that modes no transition leads to are compared as well), the stream of (type, span, mode after) with the peek_n(3) result before every token"));
    cov.insert("large_configurations_through_the_cache_(child_process)".into(), large);
    cov.insert("cache_hits".into(), json!(hits));
    cov.insert("cache_misses".into(), json!(misses));
    cov.insert("failing_builds".into(), json!(fails));
    cov.insert("inputs_per_comparison".into(), json!(ins.len()));
    cov.insert("disagreeing_transitions".into(), json!(n_dis));
    run.finish(
        "model_checking",
        cov,
        &["single-threaded: the cache is process-wide, concurrency is C14's business", "cache_clear()/cache_keys() hooks only make cache states reachable and observable without one process per path", "within a state the members were built in ascending family order; both orders of every pair are covered because every member is built from every state"],
    )
}
