//! Reference semantics of the regex fragment scnr supports (DESIGN.md §4.1, §4.2).
//!
//! Written to be boring: a regex denotes a set of strings, a class denotes a set of scalar values.
//! Named class atoms (`\d`, `[:alpha:]`, `\p{..}`) are *opaque*: their tables are supplied by the
//! caller (tabulated through scnr's public API with the atom used alone).

use regex_syntax::ast::{self, Ast};
use std::collections::BTreeMap;

/// Number of Unicode scalar values.
pub const N_SCALARS: usize = 0x110000 - 0x800;

/// All Unicode scalar values in ascending order.
pub fn all_scalars() -> impl Iterator<Item = char> {
    (0u32..0x110000).filter_map(char::from_u32)
}

/// A set of scalar values as a bitset indexed by code point.
#[derive(Clone, PartialEq, Eq, Hash)]
pub struct CharSet(pub Vec<u64>);

impl CharSet {
    pub fn empty() -> Self {
        CharSet(vec![0; 0x110000 / 64])
    }
    pub fn from_pred(f: impl Fn(char) -> bool) -> Self {
        let mut s = Self::empty();
        for c in all_scalars() {
            if f(c) {
                s.insert(c);
            }
        }
        s
    }
    #[inline]
    pub fn insert(&mut self, c: char) {
        let i = c as usize;
        self.0[i / 64] |= 1 << (i % 64);
    }
    #[inline]
    pub fn contains(&self, c: char) -> bool {
        let i = c as usize;
        self.0[i / 64] >> (i % 64) & 1 == 1
    }
    pub fn count(&self) -> usize {
        self.0.iter().map(|w| w.count_ones() as usize).sum()
    }
    pub fn first_difference(&self, other: &CharSet) -> Option<char> {
        for (i, (a, b)) in self.0.iter().zip(other.0.iter()).enumerate() {
            if a != b {
                let bit = (a ^ b).trailing_zeros() as usize;
                return char::from_u32((i * 64 + bit) as u32);
            }
        }
        None
    }
}

/// Tables of the opaque named atoms, keyed by the canonical (non-negated) atom text, see
/// [`atom_key`].
#[derive(Default, Clone)]
pub struct AtomTables {
    pub tables: BTreeMap<String, CharSet>,
}

impl AtomTables {
    pub fn get(&self, key: &str) -> &CharSet {
        self.tables
            .get(key)
            .unwrap_or_else(|| panic!("no table for opaque atom {key:?} (machinery error)"))
    }
}

/// A named atom occurring in a class: its canonical non-negated text (which, used alone as a
/// pattern, denotes the atom's set) and whether the occurrence is negated.
#[derive(Clone, Debug, PartialEq, Eq)]
pub struct NamedAtom {
    pub key: String,
    pub negated: bool,
}

pub fn perl_atom(p: &ast::ClassPerl) -> NamedAtom {
    let key = match p.kind {
        ast::ClassPerlKind::Digit => "\\d",
        ast::ClassPerlKind::Space => "\\s",
        ast::ClassPerlKind::Word => "\\w",
    };
    NamedAtom { key: key.to_string(), negated: p.negated }
}

pub fn ascii_atom(a: &ast::ClassAscii) -> NamedAtom {
    use ast::ClassAsciiKind::*;
    let name = match a.kind {
        Alnum => "alnum",
        Alpha => "alpha",
        Ascii => "ascii",
        Blank => "blank",
        Cntrl => "cntrl",
        Digit => "digit",
        Graph => "graph",
        Lower => "lower",
        Print => "print",
        Punct => "punct",
        Space => "space",
        Upper => "upper",
        Word => "word",
        Xdigit => "xdigit",
    };
    // Used alone an ASCII class has to be written inside a bracket.
    NamedAtom { key: format!("[[:{name}:]]"), negated: a.negated }
}

pub fn unicode_atom(u: &ast::ClassUnicode) -> NamedAtom {
    let key = match &u.kind {
        ast::ClassUnicodeKind::OneLetter(c) => format!("\\p{c}"),
        ast::ClassUnicodeKind::Named(n) => format!("\\p{{{n}}}"),
        ast::ClassUnicodeKind::NamedValue { op, name, value } => {
            let op = match op {
                ast::ClassUnicodeOpKind::Equal => "=",
                ast::ClassUnicodeOpKind::Colon => ":",
                ast::ClassUnicodeOpKind::NotEqual => "!=",
            };
            format!("\\p{{{name}{op}{value}}}")
        }
    };
    // `\P{..}` and `\p{^..}` – `is_negated` folds both.
    NamedAtom { key, negated: u.is_negated() }
}

/// Collects the keys of all named atoms of a pattern (for tabulation).
pub fn collect_atom_keys(a: &Ast, out: &mut Vec<String>) {
    fn item(i: &ast::ClassSetItem, out: &mut Vec<String>) {
        use ast::ClassSetItem::*;
        match i {
            Empty(_) | Literal(_) | Range(_) => {}
            Ascii(a) => out.push(ascii_atom(a).key),
            Unicode(u) => out.push(unicode_atom(u).key),
            Perl(p) => out.push(perl_atom(p).key),
            Bracketed(b) => set(&b.kind, out),
            Union(u) => u.items.iter().for_each(|i| item(i, out)),
        }
    }
    fn set(s: &ast::ClassSet, out: &mut Vec<String>) {
        match s {
            ast::ClassSet::Item(i) => item(i, out),
            ast::ClassSet::BinaryOp(b) => {
                set(&b.lhs, out);
                set(&b.rhs, out);
            }
        }
    }
    match a {
        Ast::Empty(_) | Ast::Flags(_) | Ast::Literal(_) | Ast::Dot(_) | Ast::Assertion(_) => {}
        Ast::ClassUnicode(u) => out.push(unicode_atom(u).key),
        Ast::ClassPerl(p) => out.push(perl_atom(p).key),
        Ast::ClassBracketed(b) => set(&b.kind, out),
        Ast::Repetition(r) => collect_atom_keys(&r.ast, out),
        Ast::Group(g) => collect_atom_keys(&g.ast, out),
        Ast::Alternation(x) => x.asts.iter().for_each(|a| collect_atom_keys(a, out)),
        Ast::Concat(x) => x.asts.iter().for_each(|a| collect_atom_keys(a, out)),
    }
}

fn dot_set(c: char) -> bool {
    c != '\n' && c != '\r'
}

fn named(at: &NamedAtom, c: char, t: &AtomTables) -> bool {
    t.get(&at.key).contains(c) != at.negated
}

fn item_has(i: &ast::ClassSetItem, c: char, t: &AtomTables) -> bool {
    use ast::ClassSetItem::*;
    match i {
        Empty(_) => false,
        // S10: an unescaped `.` as a class item is the dot set (README and fixtures rely on it).
        Literal(l) => {
            if l.c == '.' && l.kind == ast::LiteralKind::Verbatim {
                dot_set(c)
            } else {
                l.c == c
            }
        }
        Range(r) => r.start.c <= c && c <= r.end.c,
        Ascii(a) => named(&ascii_atom(a), c, t),
        Unicode(u) => named(&unicode_atom(u), c, t),
        Perl(p) => named(&perl_atom(p), c, t),
        Bracketed(b) => bracket_has(b, c, t),
        Union(u) => u.items.iter().any(|i| item_has(i, c, t)),
    }
}

fn set_has(s: &ast::ClassSet, c: char, t: &AtomTables) -> bool {
    match s {
        ast::ClassSet::Item(i) => item_has(i, c, t),
        ast::ClassSet::BinaryOp(b) => {
            let (l, r) = (set_has(&b.lhs, c, t), set_has(&b.rhs, c, t));
            match b.kind {
                ast::ClassSetBinaryOpKind::Intersection => l && r,
                ast::ClassSetBinaryOpKind::Difference => l && !r,
                ast::ClassSetBinaryOpKind::SymmetricDifference => l != r,
            }
        }
    }
}

pub fn bracket_has(b: &ast::ClassBracketed, c: char, t: &AtomTables) -> bool {
    set_has(&b.kind, c, t) != b.negated
}

/// A one-character atom of a pattern (what scnr registers as a "character class").
#[derive(Clone, Debug)]
pub struct AtomAst(pub Ast);

impl AtomAst {
    /// Membership of `c` in the denotation of the atom.
    pub fn has(&self, c: char, t: &AtomTables) -> bool {
        match &self.0 {
            Ast::Literal(l) => l.c == c,
            Ast::Dot(_) => dot_set(c),
            Ast::ClassPerl(p) => named(&perl_atom(p), c, t),
            Ast::ClassUnicode(u) => named(&unicode_atom(u), c, t),
            Ast::ClassBracketed(b) => bracket_has(b, c, t),
            other => panic!("not an atom: {other}"),
        }
    }
    pub fn text(&self) -> String {
        self.0.to_string()
    }
}

/// The regex IR of the reference semantics.
#[derive(Clone, Debug)]
pub enum Node {
    Eps,
    Atom(usize),
    Cat(Vec<Node>),
    Alt(Vec<Node>),
    Rep { inner: Box<Node>, min: u32, max: Option<u32> },
}

/// Why a pattern is outside the supported fragment.
#[derive(Clone, Debug, PartialEq, Eq)]
pub enum Unsupported {
    Flags,
    Assertion,
    NonGreedy,
    FlaggedGroup,
}

/// A parsed pattern: IR plus its atom table.
#[derive(Clone, Debug)]
pub struct Regex {
    pub text: String,
    pub node: Node,
    pub atoms: Vec<AtomAst>,
}

pub fn parse_ast(p: &str) -> Result<Ast, String> {
    ast::parse::Parser::new().parse(p).map_err(|e| e.to_string())
}

impl Regex {
    pub fn parse(p: &str) -> Result<Regex, String> {
        let a = parse_ast(p)?;
        Self::from_ast(p, &a).map_err(|u| format!("unsupported: {u:?}"))
    }

    pub fn from_ast(text: &str, a: &Ast) -> Result<Regex, Unsupported> {
        let mut atoms = vec![];
        let node = lower(a, &mut atoms)?;
        Ok(Regex { text: text.to_string(), node, atoms })
    }

    pub fn nullable(&self) -> bool {
        fn n(x: &Node) -> bool {
            match x {
                Node::Eps => true,
                Node::Atom(_) => false,
                Node::Cat(v) => v.iter().all(n),
                Node::Alt(v) => v.iter().any(n),
                Node::Rep { inner, min, .. } => *min == 0 || n(inner),
            }
        }
        n(&self.node)
    }
}

fn lower(a: &Ast, atoms: &mut Vec<AtomAst>) -> Result<Node, Unsupported> {
    Ok(match a {
        Ast::Empty(_) => Node::Eps,
        Ast::Flags(_) => return Err(Unsupported::Flags),
        Ast::Assertion(_) => return Err(Unsupported::Assertion),
        Ast::Literal(_) | Ast::Dot(_) | Ast::ClassPerl(_) | Ast::ClassUnicode(_) | Ast::ClassBracketed(_) => {
            atoms.push(AtomAst(a.clone()));
            Node::Atom(atoms.len() - 1)
        }
        Ast::Group(g) => {
            if let ast::GroupKind::NonCapturing(f) = &g.kind {
                if f.items.iter().any(|i| matches!(i.kind, ast::FlagsItemKind::Flag(_))) {
                    return Err(Unsupported::FlaggedGroup);
                }
            }
            lower(&g.ast, atoms)?
        }
        Ast::Concat(c) => Node::Cat(c.asts.iter().map(|x| lower(x, atoms)).collect::<Result<_, _>>()?),
        Ast::Alternation(x) => Node::Alt(x.asts.iter().map(|x| lower(x, atoms)).collect::<Result<_, _>>()?),
        Ast::Repetition(r) => {
            let inner = lower(&r.ast, atoms)?;
            if !r.greedy {
                return Err(Unsupported::NonGreedy);
            }
            let (min, max) = match &r.op.kind {
                ast::RepetitionKind::ZeroOrOne => (0, Some(1)),
                ast::RepetitionKind::ZeroOrMore => (0, None),
                ast::RepetitionKind::OneOrMore => (1, None),
                ast::RepetitionKind::Range(ast::RepetitionRange::Exactly(n)) => (*n, Some(*n)),
                ast::RepetitionKind::Range(ast::RepetitionRange::AtLeast(n)) => (*n, None),
                ast::RepetitionKind::Range(ast::RepetitionRange::Bounded(m, n)) => (*m, Some(*n)),
            };
            Node::Rep { inner: Box::new(inner), min, max }
        }
    })
}

// ------------------------------------------------------------------------------------------------
// AST interpreter over short inputs: a set of positions is a u64 bit mask (inputs <= 63 symbols).
// ------------------------------------------------------------------------------------------------

/// `matrix[atom][position]` = the character at `position` belongs to `atom`.
pub struct AtomMatrix {
    /// per atom a bit mask over input positions
    pub rows: Vec<u64>,
    pub len: usize,
}

impl AtomMatrix {
    pub fn new(re: &Regex, input: &[char], t: &AtomTables) -> Self {
        assert!(input.len() < 64);
        let rows = re
            .atoms
            .iter()
            .map(|a| {
                let mut m = 0u64;
                for (i, &c) in input.iter().enumerate() {
                    if a.has(c, t) {
                        m |= 1 << i;
                    }
                }
                m
            })
            .collect();
        AtomMatrix { rows, len: input.len() }
    }
}

/// `step(node, S)`: the set of positions `j` such that `node` matches `input[i..j]` for some `i ∈ S`.
pub fn step(n: &Node, s: u64, m: &AtomMatrix) -> u64 {
    if s == 0 {
        return 0;
    }
    match n {
        Node::Eps => s,
        Node::Atom(a) => (s & m.rows[*a]) << 1,
        Node::Cat(v) => v.iter().fold(s, |acc, x| step(x, acc, m)),
        Node::Alt(v) => v.iter().fold(0, |acc, x| acc | step(x, s, m)),
        Node::Rep { inner, min, max } => {
            let mut cur = s;
            for _ in 0..*min {
                cur = step(inner, cur, m);
                if cur == 0 {
                    return 0;
                }
            }
            match max {
                Some(mx) => {
                    let mut res = cur;
                    for _ in *min..*mx {
                        cur = step(inner, cur, m);
                        res |= cur;
                        if cur == 0 {
                            break;
                        }
                    }
                    res
                }
                None => {
                    let mut reach = cur;
                    let mut frontier = cur;
                    while frontier != 0 {
                        let nxt = step(inner, frontier, m) & !reach;
                        reach |= nxt;
                        frontier = nxt;
                    }
                    reach
                }
            }
        }
    }
}

/// Lengths (in characters, ascending, including 0 if nullable) of the prefixes of `input[pos..]`
/// the pattern matches, as a bit mask over *end positions*.
pub fn match_ends(re: &Regex, m: &AtomMatrix, pos: usize) -> u64 {
    step(&re.node, 1u64 << pos, m)
}

pub fn full_match(re: &Regex, input: &[char], t: &AtomTables) -> bool {
    let m = AtomMatrix::new(re, input, t);
    match_ends(re, &m, 0) >> input.len() & 1 == 1
}

// ------------------------------------------------------------------------------------------------
// Word-wise denotation of bracketed classes (used by C08 on all scalars; cross-checked against the
// pointwise `bracket_has`).
// ------------------------------------------------------------------------------------------------

impl CharSet {
    pub fn valid() -> CharSet {
        let mut s = CharSet(vec![!0u64; 0x110000 / 64]);
        // remove the surrogate range D800..DFFF
        for w in (0xD800 / 64)..(0xE000 / 64) {
            s.0[w] = 0;
        }
        s
    }
    pub fn complement(&self) -> CharSet {
        let v = CharSet::valid();
        CharSet(self.0.iter().zip(v.0.iter()).map(|(a, m)| !a & m).collect())
    }
    pub fn zip(&self, o: &CharSet, f: impl Fn(u64, u64) -> u64) -> CharSet {
        CharSet(self.0.iter().zip(o.0.iter()).map(|(a, b)| f(*a, *b)).collect())
    }
}

fn named_set(at: &NamedAtom, t: &AtomTables) -> CharSet {
    let s = t.get(&at.key);
    if at.negated {
        s.complement()
    } else {
        s.clone()
    }
}

fn item_set(i: &ast::ClassSetItem, t: &AtomTables) -> CharSet {
    use ast::ClassSetItem::*;
    match i {
        Empty(_) => CharSet::empty(),
        Literal(l) => {
            if l.c == '.' && l.kind == ast::LiteralKind::Verbatim {
                let mut s = CharSet::valid();
                s.0[0] &= !(1u64 << 10) & !(1u64 << 13);
                s
            } else {
                let mut s = CharSet::empty();
                s.insert(l.c);
                s
            }
        }
        Range(r) => {
            let mut s = CharSet::empty();
            for u in r.start.c as u32..=r.end.c as u32 {
                if let Some(c) = char::from_u32(u) {
                    s.insert(c);
                }
            }
            s
        }
        Ascii(a) => named_set(&ascii_atom(a), t),
        Unicode(u) => named_set(&unicode_atom(u), t),
        Perl(p) => named_set(&perl_atom(p), t),
        Bracketed(b) => bracket_set(b, t),
        Union(u) => u.items.iter().fold(CharSet::empty(), |acc, i| acc.zip(&item_set(i, t), |a, b| a | b)),
    }
}

fn set_set(s: &ast::ClassSet, t: &AtomTables) -> CharSet {
    match s {
        ast::ClassSet::Item(i) => item_set(i, t),
        ast::ClassSet::BinaryOp(b) => {
            let (l, r) = (set_set(&b.lhs, t), set_set(&b.rhs, t));
            match b.kind {
                ast::ClassSetBinaryOpKind::Intersection => l.zip(&r, |a, b| a & b),
                ast::ClassSetBinaryOpKind::Difference => l.zip(&r, |a, b| a & !b),
                ast::ClassSetBinaryOpKind::SymmetricDifference => l.zip(&r, |a, b| a ^ b),
            }
        }
    }
}

/// The set a bracketed class denotes (boolean algebra of its items).
pub fn bracket_set(b: &ast::ClassBracketed, t: &AtomTables) -> CharSet {
    let s = set_set(&b.kind, t);
    if b.negated {
        s.complement()
    } else {
        s
    }
}
