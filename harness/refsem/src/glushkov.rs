//! Glushkov position automaton of a [`Regex`] (second, independent implementation of the regex
//! semantics; shares nothing with Thompson construction + closure + partition refinement).

use crate::sem::{AtomTables, Node, Regex};

/// Position automaton. Position sets are sorted `Vec<u32>`.
#[derive(Clone, Debug)]
pub struct Glushkov {
    /// position -> index into `Regex::atoms`
    pub atom_of: Vec<u32>,
    pub first: Vec<u32>,
    pub last: Vec<bool>,
    pub follow: Vec<Vec<u32>>,
    pub nullable: bool,
}

fn union(a: &[u32], b: &[u32]) -> Vec<u32> {
    let mut v = Vec::with_capacity(a.len() + b.len());
    let (mut i, mut j) = (0, 0);
    while i < a.len() && j < b.len() {
        if a[i] < b[j] {
            v.push(a[i]);
            i += 1;
        } else if a[i] > b[j] {
            v.push(b[j]);
            j += 1;
        } else {
            v.push(a[i]);
            i += 1;
            j += 1;
        }
    }
    v.extend_from_slice(&a[i..]);
    v.extend_from_slice(&b[j..]);
    v
}

struct B {
    atom_of: Vec<u32>,
    follow: Vec<Vec<u32>>,
}

impl B {
    fn link(&mut self, last: &[u32], first: &[u32]) {
        for &l in last {
            let f = union(&self.follow[l as usize], first);
            self.follow[l as usize] = f;
        }
    }
    /// returns (nullable, first, last)
    fn go(&mut self, n: &Node) -> (bool, Vec<u32>, Vec<u32>) {
        match n {
            Node::Eps => (true, vec![], vec![]),
            Node::Atom(a) => {
                let p = self.atom_of.len() as u32;
                self.atom_of.push(*a as u32);
                self.follow.push(vec![]);
                (false, vec![p], vec![p])
            }
            Node::Cat(v) => {
                let mut acc = (true, vec![], vec![]);
                for x in v {
                    let r = self.go(x);
                    acc = self.cat(acc, r);
                }
                acc
            }
            Node::Alt(v) => {
                let mut acc: (bool, Vec<u32>, Vec<u32>) = (false, vec![], vec![]);
                for x in v {
                    let (n, f, l) = self.go(x);
                    acc = (acc.0 || n, union(&acc.1, &f), union(&acc.2, &l));
                }
                acc
            }
            Node::Rep { inner, min, max } => {
                // unfold: inner^min · (inner* | (inner?)^(max-min))
                let mut acc = (true, vec![], vec![]);
                for _ in 0..*min {
                    let r = self.go(inner);
                    acc = self.cat(acc, r);
                }
                match max {
                    None => {
                        let (_, f, l) = self.go(inner);
                        self.link(&l, &f);
                        acc = self.cat(acc, (true, f, l));
                    }
                    Some(mx) => {
                        for _ in *min..*mx {
                            let (_, f, l) = self.go(inner);
                            acc = self.cat(acc, (true, f, l));
                        }
                    }
                }
                acc
            }
        }
    }
    fn cat(&mut self, a: (bool, Vec<u32>, Vec<u32>), b: (bool, Vec<u32>, Vec<u32>)) -> (bool, Vec<u32>, Vec<u32>) {
        self.link(&a.2, &b.1);
        (
            a.0 && b.0,
            if a.0 { union(&a.1, &b.1) } else { a.1 },
            if b.0 { union(&a.2, &b.2) } else { b.2 },
        )
    }
}

impl Glushkov {
    pub fn build(re: &Regex) -> Glushkov {
        let mut b = B { atom_of: vec![], follow: vec![] };
        let (nullable, first, last) = b.go(&re.node);
        let mut lastv = vec![false; b.atom_of.len()];
        for l in last {
            lastv[l as usize] = true;
        }
        Glushkov { atom_of: b.atom_of, first, last: lastv, follow: b.follow, nullable }
    }

    pub fn npos(&self) -> usize {
        self.atom_of.len()
    }

    /// Successor of `state` (`None` = initial state) on a character for which `matches[atom]`
    /// tells membership.
    pub fn step(&self, state: Option<&[u32]>, atom_matches: &[bool]) -> Vec<u32> {
        match state {
            None => self.first.iter().copied().filter(|&p| atom_matches[self.atom_of[p as usize] as usize]).collect(),
            Some(st) => {
                let mut out: Vec<u32> = vec![];
                for &p in st {
                    for &f in &self.follow[p as usize] {
                        if atom_matches[self.atom_of[f as usize] as usize] {
                            out.push(f);
                        }
                    }
                }
                out.sort_unstable();
                out.dedup();
                out
            }
        }
    }

    pub fn accepting(&self, st: &[u32]) -> bool {
        st.iter().any(|&p| self.last[p as usize])
    }

    /// All lengths `l >= 0` (in characters) such that the pattern matches `input[..l]`.
    pub fn match_lengths(&self, re: &Regex, input: impl Iterator<Item = char>, t: &AtomTables) -> Vec<usize> {
        let mut res = vec![];
        if self.nullable {
            res.push(0);
        }
        let mut st: Option<Vec<u32>> = None;
        let mut m = vec![false; re.atoms.len()];
        for (i, c) in input.enumerate() {
            // only evaluate atoms that can be asked
            for (k, a) in re.atoms.iter().enumerate() {
                m[k] = a.has(c, t);
            }
            let nx = self.step(st.as_deref(), &m);
            if nx.is_empty() {
                break;
            }
            if self.accepting(&nx) {
                res.push(i + 1);
            }
            st = Some(nx);
        }
        res
    }
}
