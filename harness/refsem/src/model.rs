//! Token-at-a-position rule (DESIGN.md §4.3) and iterator model (§4.4).

use crate::sem::{match_ends, AtomMatrix, AtomTables, Regex};

/// One pattern of a mode in the reference model.
#[derive(Clone, Debug)]
pub struct PatSpec {
    pub regex: Regex,
    pub token_type: usize,
    /// `(is_positive, lookahead pattern)`
    pub la: Option<(bool, Regex)>,
}

#[derive(Clone, Debug)]
pub struct ModeSpec {
    pub name: String,
    pub patterns: Vec<PatSpec>,
    /// sorted `(token type, target mode)`
    pub transitions: Vec<(usize, usize)>,
}

impl ModeSpec {
    pub fn transition(&self, token_type: usize) -> Option<usize> {
        self.transitions.iter().find(|t| t.0 == token_type).map(|t| t.1)
    }
    pub fn describe(&self) -> String {
        let pats: Vec<String> = self
            .patterns
            .iter()
            .map(|p| {
                format!(
                    "{}{}=>{}",
                    p.regex.text,
                    match &p.la {
                        None => String::new(),
                        Some((true, l)) => format!("(?={})", l.text),
                        Some((false, l)) => format!("(?!{})", l.text),
                    },
                    p.token_type
                )
            })
            .collect();
        format!("{}[{}]{:?}", self.name, pats.join(" , "), self.transitions)
    }
}

/// The admissible results at one position (all lengths are in characters).
#[derive(Clone, Debug, PartialEq, Eq)]
pub struct Admissible {
    /// index of the winning pattern
    pub pattern: usize,
    pub token_type: usize,
    /// bit mask over *end positions* (character indices) that are admissible for the winner
    pub ends: u64,
    /// number of (pattern, length) candidates with satisfied lookahead at this position
    pub n_candidates: u32,
    /// number of distinct patterns among the candidates
    pub n_patterns: u32,
    /// all candidates `(pattern index, end position)` with satisfied lookahead
    pub cands: Vec<(u32, u32)>,
}

impl Admissible {
    /// Is `(token_type, end)` some candidate (pattern matches, lookahead satisfied)?
    pub fn is_candidate(&self, mode: &ModeSpec, token_type: usize, end: usize) -> bool {
        self.cands.iter().any(|&(i, e)| e as usize == end && mode.patterns[i as usize].token_type == token_type)
    }
}

/// Per (mode, character position) the admissible token, for one input.
pub struct ScanTable {
    pub chars: Vec<char>,
    /// byte offset of each character index (len + 1 entries)
    pub byte_of: Vec<usize>,
    /// `table[mode][pos]`
    pub table: Vec<Vec<Option<Admissible>>>,
}

/// The longest lookahead match length at position `e` (non-empty matches only).
fn la_longest(la: &Regex, m: &AtomMatrix, e: usize) -> Option<usize> {
    let ends = match_ends(la, m, e) & !((1u64 << (e + 1)) - 1); // strictly beyond e
    if ends == 0 {
        None
    } else {
        Some(63 - ends.leading_zeros() as usize - e)
    }
}

pub fn admissible_at(mode: &ModeSpec, mats: &[(AtomMatrix, Option<AtomMatrix>)], p: usize) -> Option<Admissible> {
    // candidates: (pattern, end, extent)
    let mut best_extent = 0usize;
    let mut cands: Vec<(usize, usize, usize)> = vec![];
    for (i, pat) in mode.patterns.iter().enumerate() {
        let (m, lam) = &mats[i];
        let mut ends = match_ends(&pat.regex, m, p) & !((1u64 << (p + 1)) - 1);
        while ends != 0 {
            let e = ends.trailing_zeros() as usize;
            ends &= ends - 1;
            let (ok, lalen) = match &pat.la {
                None => (true, 0),
                Some((positive, la)) => match (positive, la_longest(la, lam.as_ref().unwrap(), e)) {
                    (true, Some(l)) => (true, l),
                    (true, None) => (false, 0),
                    (false, Some(_)) => (false, 0),
                    (false, None) => (true, 0),
                },
            };
            if ok {
                let ext = (e - p) + lalen;
                cands.push((i, e, ext));
                best_extent = best_extent.max(ext);
            }
        }
    }
    if cands.is_empty() {
        return None;
    }
    let winner = cands.iter().filter(|c| c.2 == best_extent).map(|c| c.0).min().unwrap();
    let mut ends = 0u64;
    for c in &cands {
        if c.0 == winner && c.2 == best_extent {
            ends |= 1 << c.1;
        }
    }
    let mut pats: Vec<usize> = cands.iter().map(|c| c.0).collect();
    pats.dedup();
    Some(Admissible {
        pattern: winner,
        token_type: mode.patterns[winner].token_type,
        ends,
        n_candidates: cands.len() as u32,
        n_patterns: pats.len() as u32,
        cands: cands.iter().map(|c| (c.0 as u32, c.1 as u32)).collect(),
    })
}

impl ScanTable {
    pub fn new(modes: &[ModeSpec], input: &str, t: &AtomTables) -> ScanTable {
        let chars: Vec<char> = input.chars().collect();
        assert!(chars.len() < 63, "ScanTable is for short inputs");
        let mut byte_of = Vec::with_capacity(chars.len() + 1);
        let mut b = 0;
        for c in &chars {
            byte_of.push(b);
            b += c.len_utf8();
        }
        byte_of.push(b);
        let table = modes
            .iter()
            .map(|mode| {
                let mats: Vec<(AtomMatrix, Option<AtomMatrix>)> = mode
                    .patterns
                    .iter()
                    .map(|p| (AtomMatrix::new(&p.regex, &chars, t), p.la.as_ref().map(|(_, l)| AtomMatrix::new(l, &chars, t))))
                    .collect();
                (0..=chars.len()).map(|p| if p < chars.len() { admissible_at(mode, &mats, p) } else { None }).collect()
            })
            .collect();
        ScanTable { chars, byte_of, table }
    }

    pub fn n_chars(&self) -> usize {
        self.chars.len()
    }

    pub fn byte_len(&self) -> usize {
        *self.byte_of.last().unwrap()
    }

    /// character index of a byte offset that is a character boundary
    pub fn char_of_byte(&self, b: usize) -> Option<usize> {
        self.byte_of.binary_search(&b).ok()
    }

    /// First position `q >= p` with a token in `mode`.
    pub fn next_token_pos(&self, mode: usize, p: usize) -> Option<(usize, &Admissible)> {
        (p..self.chars.len()).find_map(|q| self.table[mode][q].as_ref().map(|a| (q, a)))
    }

    /// `(line, column)` (1-based, column in bytes) of a byte offset: the strict form.
    pub fn true_position(&self, byte: usize) -> (usize, usize) {
        let mut line = 1;
        let mut line_start = 0;
        for (i, c) in self.chars.iter().enumerate() {
            if self.byte_of[i] >= byte {
                break;
            }
            if *c == '\n' {
                line += 1;
                line_start = self.byte_of[i + 1];
            }
        }
        (line, byte - line_start + 1)
    }

    /// The alternative form accepted for an offset directly after a line break: same line, column
    /// after the break.
    pub fn lenient_position(&self, byte: usize) -> Option<(usize, usize)> {
        let ci = self.char_of_byte(byte)?;
        if ci > 0 && self.chars[ci - 1] == '\n' {
            let (l, c) = self.true_position(self.byte_of[ci - 1]);
            Some((l, c + 1))
        } else {
            None
        }
    }
}

/// Iterator model state: cursor (character index), mode, contiguously scanned prefix (char index).
#[derive(Clone, Copy, Debug, PartialEq, Eq, Hash, PartialOrd, Ord)]
pub struct MState {
    pub c: usize,
    pub m: usize,
    pub cov: usize,
}

/// A token as the model predicts it: start (char index), admissible result.
#[derive(Clone, Debug)]
pub struct Predicted<'a> {
    pub start: usize,
    pub adm: &'a Admissible,
}

impl MState {
    pub fn initial() -> MState {
        MState { c: 0, m: 0, cov: 0 }
    }
    fn consume(&mut self, to: usize) {
        if self.c <= self.cov {
            self.cov = self.cov.max(to);
        }
        self.c = to;
    }
    /// What `next()` must deliver. Returns the prediction; the caller then tells the model which
    /// admissible end the implementation chose through [`MState::commit_next`].
    pub fn predict_next<'a>(&self, t: &'a ScanTable) -> Option<Predicted<'a>> {
        t.next_token_pos(self.m, self.c).map(|(start, adm)| Predicted { start, adm })
    }
    /// Commit a token `[start, end)` (char indices) of `token_type` in the current mode.
    pub fn commit_next(&mut self, modes: &[ModeSpec], end: usize, token_type: usize) {
        self.consume(end);
        if let Some(target) = modes[self.m].transition(token_type) {
            self.m = target;
        }
    }
    pub fn commit_none(&mut self, t: &ScanTable) {
        self.consume(t.n_chars());
    }
    pub fn set_offset(&mut self, char_index: usize) {
        self.c = char_index;
    }
    pub fn advance_to(&mut self, char_index: usize) {
        if char_index > self.c {
            self.consume(char_index);
        }
    }
}
