//! Enumerated families shared by the checks (DESIGN.md §4.5). Everything is enumerated in a fixed
//! order, simplest first; nothing is sampled.

/// `G(k)` by size: `result[s]` = all regex strings with exactly `s` nodes (s = 1..=k).
pub fn g_by_size(k: usize) -> Vec<Vec<String>> {
    let atoms = ["a", "b", "[ab]", "[^a]", ".", "()", "\\w"];
    let mut memo: Vec<Vec<String>> = vec![vec![], atoms.iter().map(|s| s.to_string()).collect()];
    for s in 2..=k {
        let mut v = vec![];
        for r in &memo[s - 1] {
            for op in ["*", "+", "?", "{2}", "{1,2}", "{2,}", "{0}"] {
                v.push(format!("({r}){op}"));
            }
        }
        for i in 1..s - 1 {
            let j = s - 1 - i;
            if j == 0 {
                continue;
            }
            for r in &memo[i] {
                for t in &memo[j] {
                    v.push(format!("{r}{t}"));
                    v.push(format!("({r}|{t})"));
                }
            }
        }
        for r in &memo[s - 1] {
            v.push(format!("(|{r})"));
            v.push(format!("({r}|)"));
        }
        memo.push(v);
    }
    memo
}

/// All of `G(k)`: sizes 1..=k concatenated, simplest first.
pub fn g_upto(k: usize) -> Vec<String> {
    g_by_size(k).into_iter().flatten().collect()
}

/// All strings over `alpha` of length `0..=l`, shortest first.
pub fn inputs(alpha: &[char], l: usize) -> Vec<String> {
    let mut v = vec![];
    for len in 0..=l {
        let n = alpha.len().pow(len as u32);
        for mut k in 0..n {
            let mut s = String::new();
            for _ in 0..len {
                s.push(alpha[k % alpha.len()]);
                k /= alpha.len();
            }
            v.push(s);
        }
    }
    v
}

/// Token type assignment variants for a pattern set of size `n` (DESIGN.md §4.5).
pub fn token_type_variants(n: usize, all: bool) -> Vec<Vec<usize>> {
    let in_order: Vec<usize> = (0..n).collect();
    let reversed: Vec<usize> = (0..n).rev().collect();
    let mut v = vec![in_order];
    if n > 1 {
        v.push(reversed);
    }
    if all {
        let weird = [7usize, 0, 65_536];
        v.push((0..n).map(|i| weird[i % 3]).collect());
        let weird2 = [u32::MAX as usize, 1, 2];
        v.push((0..n).map(|i| weird2[i % 3]).collect());
        if n > 1 {
            v.push(vec![5; n]);
        }
    }
    v
}

/// A deterministic index-based splitter: item `i` of `n` for worker `w` of `k`.
pub fn chunk(n: usize, k: usize, w: usize) -> std::ops::Range<usize> {
    let per = n.div_ceil(k.max(1));
    (w * per).min(n)..((w + 1) * per).min(n)
}
