//! Enumerated families shared by the checks (DESIGN.md §4.5). Everything is enumerated in a fixed
//! order, simplest first; nothing is sampled.

/// `G(k)` by size: `result[s]` = all regex strings with exactly `s` nodes (s = 1..=k).
pub fn g_by_size(k: usize) -> Vec<Vec<String>> {
    let atoms = ["a", "b", "[ab]", "[^a]", ".", "()", "\\w"];
    let mut memo: Vec<Vec<String>> = vec![vec![], atoms.iter().map(|s| s.to_string()).collect()];
    for s in 2..=k {
        let mut v = vec![];
        for r in &memo[s - 1] {
            for op in ["*", "+", "?", "{2}", "{1,2}", "{2,}", "{0}"] {
                v.push(format!("({r}){op}"));
            }
        }
        for i in 1..s - 1 {
            let j = s - 1 - i;
            if j == 0 {
                continue;
            }
            for r in &memo[i] {
                for t in &memo[j] {
                    v.push(format!("{r}{t}"));
                    v.push(format!("({r}|{t})"));
                }
            }
        }
        for r in &memo[s - 1] {
            v.push(format!("(|{r})"));
            v.push(format!("({r}|)"));
        }
        memo.push(v);
    }
    memo
}

/// All of `G(k)`: sizes 1..=k concatenated, simplest first.
pub fn g_upto(k: usize) -> Vec<String> {
    g_by_size(k).into_iter().flatten().collect()
}

/// All strings over `alpha` of length `0..=l`, shortest first.
pub fn inputs(alpha: &[char], l: usize) -> Vec<String> {
    let mut v = vec![];
    for len in 0..=l {
        let n = alpha.len().pow(len as u32);
        for mut k in 0..n {
            let mut s = String::new();
            for _ in 0..len {
                s.push(alpha[k % alpha.len()]);
                k /= alpha.len();
            }
            v.push(s);
        }
    }
    v
}

/// Token type assignment variants for a pattern set of size `n` (DESIGN.md §4.5).
pub fn token_type_variants(n: usize, all: bool) -> Vec<Vec<usize>> {
    let in_order: Vec<usize> = (0..n).collect();
    let reversed: Vec<usize> = (0..n).rev().collect();
    let mut v = vec![in_order];
    if n > 1 {
        v.push(reversed);
    }
    if all {
        // token types that collide modulo 2^16 / 2^8 or sit at the u32 boundary
        let weird = [65_536usize, 0, 7];
        v.push((0..n).map(|i| weird[i % 3]).collect());
        let weird2 = [u32::MAX as usize, 65_537, 1];
        v.push((0..n).map(|i| weird2[i % 3]).collect());
        let weird3 = [256usize, 0, 512];
        v.push((0..n).map(|i| weird3[i % 3]).collect());
        if n > 1 {
            v.push(vec![5; n]);
        }
    }
    v
}

/// A deterministic index-based splitter: item `i` of `n` for worker `w` of `k`.
pub fn chunk(n: usize, k: usize, w: usize) -> std::ops::Range<usize> {
    let per = n.div_ceil(k.max(1));
    (w * per).min(n)..((w + 1) * per).min(n)
}

/// One-character atoms whose texts are near each other (polarity, order, escaping, nesting): the
/// class registry deduplicates classes by their text, so every ordered pair is used in one scanner.
pub fn class_menu() -> Vec<&'static str> {
    vec![
        "a", "\\x61", "[a]", "[^a]", "b", "\\.", ".", "[.]", "[ab]", "[ba]", "[^ab]", "[a-c]", "[^a-c]", "\\d", "\\D", "[\\d]", "[^\\d]", "\\w", "\\W", "\\s", "\\S", "\\pL", "\\PL", "\\p{Alphabetic}", "\\P{Alphabetic}",
        "\\pN", "\\PN", "[[:alpha:]]", "[[:^alpha:]]", "[^[:alpha:]]", "[[:digit:]]", "[\\pL]", "[^\\pL]", "[\\PL]", "[a-c--b]", "[a-c&&b]", "[a-c~~b]",
        // literals that agree with `a` in their low 7 / 8 / 16 bits (U+00E1, U+0161, U+10061)
        "á", "š", "\\x{10061}",
        // a negated bracket around each set operation
        "[^a-c--b]", "[^a-c&&b]", "[^a-c~~b]",
    ]
}

/// Configurations for one ordered pair of class atoms: both in one mode, and spread over two modes
/// and a lookahead (the registry is shared by all modes and lookaheads of a scanner).
pub fn class_pair_patterns(x: &str, y: &str) -> (Vec<String>, (String, String)) {
    (vec![format!("({x})+"), format!("({y})+"), format!("({x})({y})")], (x.to_string(), y.to_string()))
}

/// Counted and plain repetitions of small inner patterns in several contexts (zero iterations,
/// `{0,}`, `{1,}`, `{m,n}` with every 0 <= m <= n <= 3).
pub fn repetition_shapes() -> Vec<String> {
    let inners = ["a", "ab", "(a|b)", "[ab]", "b?"];
    let mut reps: Vec<String> = vec!["*".into(), "+".into(), "?".into()];
    for m in 0..=3 {
        reps.push(format!("{{{m}}}"));
        reps.push(format!("{{{m},}}"));
        for n in m..=3 {
            reps.push(format!("{{{m},{n}}}"));
        }
    }
    let mut v = vec![];
    for i in inners {
        for r in &reps {
            let x = format!("({i}){r}");
            v.push(x.clone());
            v.push(format!("x{x}"));
            v.push(format!("{x}y"));
            v.push(format!("x{x}y"));
            v.push(format!("(x{x}){{2}}"));
            v.push(format!("({x}|x)y"));
            v.push(format!("x({x})*y"));
        }
    }
    v
}

/// Branch patterns `prefix body` for the "branching" family: two branches that agree for a while
/// and differ one or more steps ahead (loops over different strings, optional tails, nested
/// alternatives). Minimizer and construction shortcuts live in such shapes.
pub fn branch_patterns() -> Vec<String> {
    let strs = ["x", "y", "z", "xy", "xz", "yx"];
    let mut bodies: Vec<String> = vec![];
    for s in strs {
        bodies.push(s.to_string());
        bodies.push(format!("({s})*"));
        bodies.push(format!("({s})+"));
        for t in strs {
            if s != t {
                bodies.push(format!("({s}|{t})"));
                bodies.push(format!("({s}|{t})*"));
            }
            bodies.push(format!("({s})*{t}"));
        }
    }
    // three-way alternatives of two-letter strings that share first or second letters: which target
    // belongs to which class matters (x->{P}, y->{Q,R} versus x->{P,Q}, y->{R})
    let two = ["xp", "xq", "xr", "yp", "yq", "yr"];
    for i in 0..two.len() {
        for j in i + 1..two.len() {
            for k in j + 1..two.len() {
                bodies.push(format!("({}|{}|{})", two[i], two[j], two[k]));
            }
        }
    }
    let mut v = vec![];
    for p in ["a", "b"] {
        for b in &bodies {
            v.push(format!("{p}{b}"));
        }
    }
    v
}
