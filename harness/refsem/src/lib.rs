//! Reference semantics, families and reporting helpers for the scnr verification harness.
//! This crate never calls scnr.
pub mod evidence;
pub mod families;
pub mod glushkov;
pub mod model;
pub mod par;
pub mod sem;
