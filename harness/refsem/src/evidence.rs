//! Evidence files, violation reporting and the known-findings list.

use serde_json::{json, Map, Value};
use std::path::PathBuf;
use std::time::Instant;

pub fn verif_root() -> PathBuf {
    PathBuf::from(std::env::var("VERIF_ROOT").unwrap_or_else(|_| "/verif".to_string()))
}

#[derive(Clone, Copy, PartialEq, Eq, Debug)]
pub enum Tier {
    Quick,
    Thorough,
}

impl Tier {
    pub fn name(self) -> &'static str {
        match self {
            Tier::Quick => "quick",
            Tier::Thorough => "thorough",
        }
    }
}

/// One violation found by a check.
#[derive(Clone, Debug)]
pub struct Violation {
    /// Shape key used to match entries of `known_findings.json` (empty = never known).
    pub key: String,
    /// One-line human readable summary.
    pub summary: String,
    /// Replayable description: configuration, input, history, expected, got.
    pub replay: Value,
}

pub struct Run {
    pub property: String,
    pub tier: Tier,
    pub seed: u64,
    start: Instant,
    violations: Vec<Violation>,
    known: Vec<(String, String)>,
    known_hits: Vec<(String, usize, String)>,
    n_new: usize,
    replay_paths: Vec<String>,
}

const MAX_REPLAYS: usize = 12;

impl Run {
    pub fn new(property: &str, tier: Tier) -> Run {
        let seed = std::env::var("VERIF_SEED").ok().and_then(|s| s.parse().ok()).unwrap_or(0);
        let mut known = vec![];
        let path = verif_root().join("known_findings.json");
        if let Ok(text) = std::fs::read_to_string(&path) {
            let v: Value = serde_json::from_str(&text).unwrap_or_else(|e| machinery(&format!("known_findings.json does not parse: {e}")));
            for f in v["findings"].as_array().cloned().unwrap_or_default() {
                if f["status"] == "known" && f["property"] == property {
                    known.push((f["key"].as_str().unwrap_or("").to_string(), f["what"].as_str().unwrap_or("").to_string()));
                }
            }
        }
        Run {
            property: property.to_string(),
            tier,
            seed,
            start: Instant::now(),
            violations: vec![],
            known,
            known_hits: vec![],
            n_new: 0,
            replay_paths: vec![],
        }
    }

    pub fn elapsed(&self) -> f64 {
        self.start.elapsed().as_secs_f64()
    }

    /// Registers a violation; returns true if it is new (not a listed known finding).
    pub fn violation(&mut self, v: Violation) -> bool {
        if !v.key.is_empty() {
            if let Some((k, what)) = self.known.iter().find(|(k, _)| *k == v.key) {
                if let Some(h) = self.known_hits.iter_mut().find(|h| h.0 == *k) {
                    h.1 += 1;
                } else {
                    self.known_hits.push((k.clone(), 1, what.clone()));
                }
                return false;
            }
        }
        self.n_new += 1;
        if self.violations.len() < MAX_REPLAYS {
            self.violations.push(v);
        }
        true
    }

    pub fn n_violations(&self) -> usize {
        self.n_new
    }

    /// Writes the evidence file, prints the verdict lines and exits.
    pub fn finish(mut self, level: &str, mut coverage: Map<String, Value>, assumptions: &[&str]) -> ! {
        let root = verif_root();
        let _ = std::fs::create_dir_all(root.join("evidence"));
        let _ = std::fs::create_dir_all(root.join("replays"));
        for (i, v) in self.violations.iter().enumerate() {
            let path = root.join("replays").join(format!("{}-{}-{}.json", self.property, self.tier.name(), i));
            let body = json!({"property": self.property, "key": v.key, "summary": v.summary, "replay": v.replay});
            std::fs::write(&path, serde_json::to_string_pretty(&body).unwrap()).unwrap_or_else(|e| machinery(&format!("cannot write replay: {e}")));
            self.replay_paths.push(path.display().to_string());
        }
        for (k, n, what) in &self.known_hits {
            println!("KNOWN-FINDING: property={} key={} occurrences={} {}", self.property, k, n, what);
        }
        coverage.insert("known_finding_hits".into(), json!(self.known_hits.iter().map(|h| json!({"key": h.0, "occurrences": h.1})).collect::<Vec<_>>()));
        if !self.violations.is_empty() {
            coverage.insert("violation_summaries".into(), json!(self.violations.iter().map(|v| v.summary.clone()).collect::<Vec<_>>()));
        }
        // `samples` must list actual cases of this run: when a run stops early on violations the
        // violating cases are the samples.
        let empty = coverage.get("samples").and_then(|s| s.as_array()).map(|a| a.is_empty()).unwrap_or(true);
        if empty {
            let mut s: Vec<Value> = self.violations.iter().take(4).map(|v| v.replay.clone()).collect();
            if s.is_empty() {
                s.push(json!({"note": "no sample case was recorded by this run"}));
            }
            coverage.insert("samples".into(), json!(s));
        }
        for k in ["evaluations", "distinct_nontrivial"] {
            // the schema wants evaluations >= 1 and distinct_nontrivial >= 2 for exploration-level
            // evidence; a run that stopped at once on a violation reports what it has
            if !coverage.contains_key(k) {
                coverage.insert(k.into(), json!(0));
            }
        }
        let ev = json!({
            "property_id": self.property,
            "tier": self.tier.name(),
            "seed": self.seed,
            "level": level,
            "coverage": Value::Object(coverage),
            "assumptions": assumptions,
            "wall_s": (self.start.elapsed().as_secs_f64() * 1000.0).round() / 1000.0,
            "violations": self.n_new,
        });
        let path = root.join("evidence").join(format!("{}.json", self.property));
        std::fs::write(&path, serde_json::to_string_pretty(&ev).unwrap()).unwrap_or_else(|e| machinery(&format!("cannot write evidence: {e}")));
        if self.n_new > 0 {
            for (v, p) in self.violations.iter().zip(self.replay_paths.iter()) {
                println!("VIOLATION property={} replay={}", self.property, p);
                println!("  {}", v.summary);
            }
            println!("{}: {} violation(s) ({} replay files written)", self.property, self.n_new, self.replay_paths.len());
            std::process::exit(1);
        }
        println!("{}: held on everything explored ({} tier, {:.1}s)", self.property, self.tier.name(), self.start.elapsed().as_secs_f64());
        std::process::exit(0);
    }
}

/// Machinery failure: never a verdict.
pub fn machinery(msg: &str) -> ! {
    eprintln!("MACHINERY-ERROR: {msg}");
    std::process::exit(2);
}

pub fn parse_args() -> (String, Tier, Vec<String>) {
    let args: Vec<String> = std::env::args().skip(1).collect();
    if args.len() < 2 {
        machinery("usage: <binary> <property> <quick|thorough> [options]");
    }
    let tier = match args[1].as_str() {
        "quick" => Tier::Quick,
        "thorough" => Tier::Thorough,
        t => machinery(&format!("unknown tier {t}")),
    };
    (args[0].clone(), tier, args[2..].to_vec())
}

/// A small helper to keep a bounded list of distinct samples.
#[derive(Default, Clone)]
pub struct Samples {
    pub items: Vec<Value>,
    pub cap: usize,
}

impl Samples {
    pub fn new(cap: usize) -> Self {
        Samples { items: vec![], cap }
    }
    pub fn push(&mut self, v: impl FnOnce() -> Value) {
        if self.items.len() < self.cap {
            self.items.push(v());
        }
    }
    pub fn merge(&mut self, other: Samples) {
        for i in other.items {
            if self.items.len() < self.cap {
                self.items.push(i);
            }
        }
    }
}

/// Thread-local accumulator of violations: true counts per shape key plus a few samples each.
#[derive(Default)]
pub struct ViolAcc {
    pub per_key: std::collections::BTreeMap<String, (usize, Vec<Violation>)>,
}

impl ViolAcc {
    pub fn add(&mut self, key: &str, make: impl FnOnce() -> Violation) {
        let e = self.per_key.entry(key.to_string()).or_default();
        e.0 += 1;
        if e.1.len() < 4 {
            e.1.push(make());
        }
    }
    pub fn merge(&mut self, other: ViolAcc) {
        for (k, (n, vs)) in other.per_key {
            let e = self.per_key.entry(k).or_default();
            e.0 += n;
            for v in vs {
                if e.1.len() < 8 {
                    e.1.push(v);
                }
            }
        }
    }
    pub fn total(&self) -> usize {
        self.per_key.values().map(|v| v.0).sum()
    }
    /// Hands everything to the run: samples as violations, the rest as counts.
    pub fn flush(self, run: &mut Run) {
        for (k, (n, vs)) in self.per_key {
            let shown = vs.len();
            for v in vs {
                run.violation(v);
            }
            run.add_extra(&k, n - shown);
        }
    }
}

impl Run {
    /// Counts `n` more violations of shape `key` for which no replay file is written.
    pub fn add_extra(&mut self, key: &str, n: usize) {
        if n == 0 {
            return;
        }
        if !key.is_empty() {
            if let Some(h) = self.known_hits.iter_mut().find(|h| h.0 == key) {
                h.1 += n;
                return;
            }
            if self.known.iter().any(|(k, _)| k == key) {
                let what = self.known.iter().find(|(k, _)| k == key).unwrap().1.clone();
                self.known_hits.push((key.to_string(), n, what));
                return;
            }
        }
        self.n_new += n;
    }
}
