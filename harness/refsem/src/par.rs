//! Minimal deterministic work distribution over threads (no sampling, no work stealing surprises:
//! items are claimed through one atomic counter, results are merged by the caller).

use std::sync::atomic::{AtomicUsize, Ordering};

pub fn n_threads() -> usize {
    std::env::var("VERIF_THREADS")
        .ok()
        .and_then(|s| s.parse().ok())
        .unwrap_or_else(|| std::thread::available_parallelism().map(|n| n.get()).unwrap_or(4))
        .max(1)
}

/// Runs `work(state, i)` for every `i in 0..n`, each worker thread owning one `state` created by
/// `init`. Returns the worker states (to be merged). Items are claimed in blocks of `block`.
pub fn par_for<S: Send>(n: usize, block: usize, init: impl Fn() -> S + Sync, work: impl Fn(&mut S, usize) + Sync) -> Vec<S> {
    let next = AtomicUsize::new(0);
    let k = n_threads().min(n.max(1));
    let block = block.max(1);
    std::thread::scope(|sc| {
        let hs: Vec<_> = (0..k)
            .map(|_| {
                sc.spawn(|| {
                    let mut st = init();
                    loop {
                        let start = next.fetch_add(block, Ordering::Relaxed);
                        if start >= n {
                            break;
                        }
                        for i in start..(start + block).min(n) {
                            work(&mut st, i);
                        }
                    }
                    st
                })
            })
            .collect();
        hs.into_iter().map(|h| h.join().expect("worker panicked (machinery error)")).collect()
    })
}
