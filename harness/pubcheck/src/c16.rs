//! C16: scanner configurations and matches survive serialization unchanged.

use bridge::{catch, CMode, CPat, Cfg};
use refsem::evidence::{Run, Samples, Tier, ViolAcc, Violation};
use refsem::families::inputs;
use refsem::par::par_for;
use scnr::{Match, MatchExt, MatchExtIterator, Position, ScannerBuilder, ScannerMode, ScannerModeSwitcher, Span};
use serde_json::{json, Map, Value};

const STRINGS: [&str; 12] = ["a", "", "\"", "\\\\", "a\"b\\\\c", "\u{0}\n\t", "ü€😀", "\u{7f}", "/\\*", "\u{2028}\u{feff}", "}{][,:", "\\u{41}\\x42"];

fn token_types() -> Vec<usize> {
    vec![0, 1, 65_535, 65_536, u32::MAX as usize, usize::MAX]
}

fn transition_sets() -> Vec<Vec<(usize, usize)>> {
    vec![vec![], vec![(0, 1)], vec![(1, 0), (5, 2)], vec![(1, 2), (2, 1)], vec![(0, 2), (1, 1), (65_536, 0)], vec![(u32::MAX as usize, usize::MAX)],
        // token types whose decimal texts sort differently from their values
        vec![(9, 1), (10, 2)], vec![(2, 1), (10, 0), (100, 2), (1_000, 1)]]
}

fn las() -> Vec<Option<(bool, String)>> {
    let mut v = vec![None];
    for s in STRINGS {
        v.push(Some((true, s.to_string())));
        v.push(Some((false, s.to_string())));
    }
    v
}

/// Hand-written JSON in the layout of the README / fixtures (independent of scnr's serializer).
fn handwritten(cfg: &Cfg) -> Value {
    Value::Array(
        cfg.modes
            .iter()
            .map(|m| {
                json!({
                    "name": m.name,
                    "patterns": m.pats.iter().map(|p| {
                        let mut o = Map::new();
                        o.insert("pattern".into(), json!(p.pat));
                        o.insert("token_type".into(), json!(p.tt));
                        if let Some((b, l)) = &p.la {
                            o.insert("lookahead".into(), json!({"is_positive": b, "pattern": l}));
                        }
                        Value::Object(o)
                    }).collect::<Vec<_>>(),
                    "transitions": m.transitions.iter().map(|t| json!([t.0, t.1])).collect::<Vec<_>>(),
                })
            })
            .collect(),
    )
}

fn check_cfg(cfg: &Cfg, behaviour_inputs: &[String]) -> Result<bool, String> {
    let modes: Vec<ScannerMode> = cfg.to_scnr();
    // 1. three serialization routes, each read back
    let s = serde_json::to_string(&modes).map_err(|e| format!("to_string failed: {e}"))?;
    let back: Vec<ScannerMode> = serde_json::from_str(&s).map_err(|e| format!("reading back {s} failed: {e}"))?;
    if back != modes {
        return Err(format!("to_string/from_str does not round-trip: {s} reads back as {back:?}"));
    }
    let s2 = serde_json::to_string(&back).map_err(|e| e.to_string())?;
    if s2 != s {
        return Err(format!("re-serialization differs: {s} vs {s2}"));
    }
    let pretty = serde_json::to_string_pretty(&modes).map_err(|e| e.to_string())?;
    let back2: Vec<ScannerMode> = serde_json::from_str(&pretty).map_err(|e| format!("reading back the pretty form failed: {e}"))?;
    if back2 != modes {
        return Err(format!("to_string_pretty/from_str does not round-trip: {pretty}"));
    }
    let v = serde_json::to_value(&modes).map_err(|e| e.to_string())?;
    let back3: Vec<ScannerMode> = serde_json::from_value(v.clone()).map_err(|e| format!("from_value failed: {e}"))?;
    if back3 != modes {
        return Err(format!("to_value/from_value does not round-trip: {v}"));
    }
    // 2. the README / fixture layout (written by hand, independent of scnr's serializer) is accepted
    // (the serialized form itself need not be the README layout - only reading it back and
    // accepting the README layout are required)
    let hw = handwritten(cfg);
    let from_hw: Vec<ScannerMode> = serde_json::from_value(hw.clone()).map_err(|e| format!("hand-written JSON in the README layout is rejected: {e}: {hw}"))?;
    if from_hw != modes {
        return Err(format!("hand-written JSON in the README layout reads as {from_hw:?}, expected {modes:?}"));
    }
    // 3. behaviour of original and read-back (public API only)
    let builds = |m: &[ScannerMode]| catch(|| ScannerBuilder::new().add_scanner_modes(m).build_uncached());
    let (a, b) = (builds(&modes), builds(&back));
    match (a, b) {
        (Ok(Ok(sa)), Ok(Ok(sb))) => {
            for i in 0..3 {
                if sa.mode_name(i) != sb.mode_name(i) {
                    return Err(format!("mode_name({i}) differs after the round trip"));
                }
            }
            for inp in behaviour_inputs {
                let (ta, tb) = (bridge::scan_all(&sa, inp), bridge::scan_all(&sb, inp));
                if ta != tb {
                    return Err(format!("token streams differ after the round trip on {inp:?}: {ta:?} vs {tb:?}"));
                }
            }
            Ok(true)
        }
        (Ok(Err(_)), Ok(Err(_))) => Ok(false),
        (Err(_), Err(_)) => Ok(false), // a panic of build is C15's business, equal on both sides
        (x, y) => Err(format!("original and read-back configuration differ in whether they build: {:?} vs {:?}", x.map(|r| r.is_ok()), y.map(|r| r.is_ok()))),
    }
}

#[derive(Default)]
struct Acc {
    n: usize,
    built: usize,
    with_la: usize,
    viol: ViolAcc,
    samples: Samples,
}

pub fn run(tier: Tier) -> ! {
    let mut run = Run::new("C16", tier);
    let beh = inputs(&['a', 'b', '"', '\\'], if tier == Tier::Quick { 3 } else { 4 });
    // family 1: one mode, one pattern: full product
    let mut cfgs: Vec<Cfg> = vec![];
    for name in STRINGS {
        for pat in STRINGS {
            for tt in token_types() {
                for la in las() {
                    for tr in transition_sets() {
                        cfgs.push(Cfg { modes: vec![CMode { name: name.to_string(), pats: vec![CPat { pat: pat.to_string(), tt, la: la.clone() }], transitions: tr }] });
                    }
                }
            }
        }
    }
    let n1 = cfgs.len();
    // family 2: 0..2 patterns, 1..2 modes, every pair of (pattern string, lookahead option)
    for p1 in STRINGS {
        for l1 in las() {
            for (p2, l2) in [("b", None), ("\"", Some((false, "\\\\".to_string()))), ("ü€😀", Some((true, "a".to_string())))] {
                let m0 = CMode { name: "INITIAL".into(), pats: vec![CPat { pat: p1.to_string(), tt: 1, la: l1.clone() }, CPat { pat: p2.to_string(), tt: 0, la: l2.clone() }], transitions: vec![(0, 1), (1, 1)] };
                let m1 = CMode { name: p1.to_string(), pats: vec![], transitions: vec![] };
                let m2 = CMode { name: "S".into(), pats: vec![CPat { pat: p2.to_string(), tt: 65_536, la: l1.clone() }], transitions: vec![(65_536, 0)] };
                cfgs.push(Cfg { modes: vec![m0.clone()] });
                cfgs.push(Cfg { modes: vec![m0.clone(), m1.clone()] });
                cfgs.push(Cfg { modes: vec![m0.clone(), m2.clone()] });
                cfgs.push(Cfg { modes: vec![m1, m2] });
            }
        }
    }
    // three modes whose transitions are not in target order; behaviour must survive the round trip
    for (t0, t1) in [(vec![(0usize, 2usize), (1, 1)], vec![(0usize, 0usize)]), (vec![(0, 1), (1, 2)], vec![(1, 0), (2, 2)]), (vec![(1, 2), (2, 1)], vec![(0, 2), (2, 0)])] {
        cfgs.push(Cfg {
            modes: vec![
                CMode { name: "INITIAL".into(), pats: vec![CPat::new("a", 0), CPat::new("b", 1), CPat::new("\"", 2)], transitions: t0.clone() },
                CMode { name: "COMMENT".into(), pats: vec![CPat::new("b", 0), CPat::new("a+", 1), CPat::new("\\\\", 2)], transitions: t1.clone() },
                CMode { name: "STRING".into(), pats: vec![CPat::new("[ab]", 0), CPat::new("\"", 1)], transitions: vec![(1, 0)] },
            ],
        });
    }
    // family 3: every string of one ASCII character (all 128) and of two printable ASCII characters
    // as the text of a positive and of a negative lookahead, as a pattern and as a mode name: no
    // string may act as a marker of the serialized form
    let n12 = cfgs.len();
    {
        let mut shorts: Vec<String> = (0u8..128).map(|b| (b as char).to_string()).collect();
        let printable: Vec<char> = (0x20u8..0x7f).map(|b| b as char).collect();
        for a in &printable {
            for b in &printable {
                shorts.push(format!("{a}{b}"));
            }
        }
        for s in &shorts {
            for pos in [true, false] {
                cfgs.push(Cfg { modes: vec![CMode { name: "M".into(), pats: vec![CPat { pat: "a".into(), tt: 1, la: Some((pos, s.clone())) }], transitions: vec![] }] });
            }
            cfgs.push(Cfg { modes: vec![CMode { name: s.clone(), pats: vec![CPat { pat: s.clone(), tt: 0, la: None }], transitions: vec![(0, 0)] }] });
        }
    }
    let n3 = cfgs.len() - n12;
    cfgs.push(Cfg { modes: vec![] });
    let accs = par_for(cfgs.len(), 64, || Acc { samples: Samples::new(1), ..Default::default() }, |acc, i| {
        let cfg = &cfgs[i];
        acc.n += 1;
        if cfg.has_lookahead() {
            acc.with_la += 1;
        }
        match catch(|| check_cfg(cfg, &beh)) {
            Ok(Ok(built)) => {
                if built {
                    acc.built += 1;
                }
            }
            Ok(Err(e)) => acc.viol.add("", || Violation { key: String::new(), summary: format!("{}: {e}", cfg.show()).chars().take(600).collect(), replay: json!({"configuration": cfg.to_json(), "calls": ["serde_json::to_string / to_string_pretty / to_value on Vec<ScannerMode>", "from_str / from_value", "compare with ==, re-serialize, build both"], "disagreement": e}) }),
            Err(p) => acc.viol.add("", || Violation { key: String::new(), summary: format!("{}: panicked: {p}", cfg.show()), replay: json!({"configuration": cfg.to_json(), "panic": p}) }),
        }
        if acc.samples.items.is_empty() && i % 1013 == 0 {
            acc.samples.push(|| json!({"configuration": handwritten(cfg)}));
        }
    });
    let mut total = Acc { samples: Samples::new(6), ..Default::default() };
    for a in accs {
        total.n += a.n;
        total.built += a.built;
        total.with_la += a.with_la;
        total.viol.merge(a.viol);
        total.samples.merge(a.samples);
    }
    let mut fams = vec![
        json!({"family": "one mode, one pattern: mode name x pattern string (12 special strings each) x token type {0,1,65535,65536,u32::MAX,usize::MAX} x lookahead {none, positive, negative} x 12 strings x 8 transition lists (targets ascending, descending, mixed; token types of different digit counts)", "configurations": n1, "exhaustive": true}),
        json!({"family": "1..2 modes, 0..2 patterns: every (pattern string, lookahead option) combined with three second patterns; empty mode list", "configurations": n12 - n1, "exhaustive": true}),
        json!({"family": "every string of one ASCII character (128) and of two printable ASCII characters (95^2) as positive lookahead, as negative lookahead, and as pattern + mode name", "configurations": n3, "exhaustive": true}),
    ];

    // README JSON
    let mut readme_ok = false;
    let readme = std::fs::read_to_string(bridge::repo_root().join("README.md")).unwrap_or_default();
    if let Some(start) = readme.find("```json") {
        let body = &readme[start + 7..];
        if let Some(end) = body.find("```") {
            let text = &body[..end];
            total.n += 1;
            let r = catch(|| -> Result<(), String> {
                let modes: Vec<ScannerMode> = serde_json::from_str(text).map_err(|e| format!("README JSON is rejected: {e}"))?;
                let sc = ScannerBuilder::new().add_scanner_modes(&modes).build_uncached().map_err(|e| format!("README configuration does not build: {e}"))?;
                let toks: Vec<(usize, usize, usize)> = sc.find_iter("/* x */").map(|m| (m.token_type(), m.start(), m.end())).collect();
                let want = vec![(1, 0, 2), (3, 2, 3), (3, 3, 4), (3, 4, 5), (2, 5, 7)];
                if toks != want {
                    return Err(format!("README configuration tokenizes `/* x */` as {toks:?}, the README says comment start (1), content (3) per character, comment end (2): {want:?}"));
                }
                if sc.mode_name(0) != Some("INITIAL") || sc.mode_name(1) != Some("COMMENT") {
                    return Err("README mode names not preserved".into());
                }
                Ok(())
            });
            match r {
                Ok(Ok(())) => readme_ok = true,
                Ok(Err(e)) | Err(e) => total.viol.add("", || Violation { key: String::new(), summary: e.clone(), replay: json!({"json": text, "input": "/* x */"}) }),
            }
        }
    }
    fams.push(json!({"family": "the JSON block of README.md, extracted at run time: deserializes, builds, tokenizes `/* x */` as described", "found_and_checked": readme_ok}));

    // Match, MatchExt, Span, Position: value -> JSON (three routes) -> value; and the fixture layout
    // (hand-written JSON) is accepted and denotes the value it spells
    let nums: [u64; 7] = [0, 1, 255, (1u64 << 32) - 1, 1u64 << 32, (1u64 << 53) + 1, u64::MAX];
    let mut n_vals = 0usize;
    fn rt<T: serde::Serialize + serde::de::DeserializeOwned + PartialEq + std::fmt::Debug>(x: &T, what: &str, viol: &mut ViolAcc) {
        let r: Result<(), String> = (|| {
            let s = serde_json::to_string(x).map_err(|e| e.to_string())?;
            let y: T = serde_json::from_str(&s).map_err(|e| format!("{s}: {e}"))?;
            if &y != x {
                return Err(format!("{x:?} -> {s} -> {y:?}"));
            }
            let p = serde_json::to_string_pretty(x).map_err(|e| e.to_string())?;
            let y: T = serde_json::from_str(&p).map_err(|e| format!("{p}: {e}"))?;
            if &y != x {
                return Err(format!("{x:?} -> pretty -> {y:?}"));
            }
            let v = serde_json::to_value(x).map_err(|e| e.to_string())?;
            let y: T = serde_json::from_value(v.clone()).map_err(|e| format!("{v}: {e}"))?;
            if &y != x {
                return Err(format!("{x:?} -> {v} -> {y:?}"));
            }
            Ok(())
        })();
        if let Err(e) = r {
            viol.add("", || Violation { key: String::new(), summary: format!("{what} does not round-trip: {e}"), replay: json!({"type": what, "disagreement": e}) });
        }
    }
    for a in nums {
        for b in nums {
            let (a_, b_) = (a as usize, b as usize);
            let span = Span { start: a_, end: b_ };
            let pos = Position { line: a_, column: b_ };
            rt(&span, "Span", &mut total.viol);
            rt(&pos, "Position", &mut total.viol);
            n_vals += 2;
            // fixture layout accepted
            match serde_json::from_value::<Span>(json!({"start": a, "end": b})) {
                Ok(x) if x == span => {}
                other => total.viol.add("", || Violation { key: String::new(), summary: format!("Span in the fixture layout {{start,end}} reads as {other:?}, expected {span:?}"), replay: json!({"json": {"start": a, "end": b}}) }),
            }
            match serde_json::from_value::<Position>(json!({"line": a, "column": b})) {
                Ok(x) if x == pos => {}
                other => total.viol.add("", || Violation { key: String::new(), summary: format!("Position in the fixture layout {{line,column}} reads as {other:?}, expected {pos:?}"), replay: json!({"json": {"line": a, "column": b}}) }),
            }
            for c in nums {
                let m = Match::new(c as usize, span);
                rt(&m, "Match", &mut total.viol);
                n_vals += 1;
                match serde_json::from_value::<Match>(json!({"token_type": c, "span": {"start": a, "end": b}})) {
                    Ok(x) if x == m => {}
                    other => total.viol.add("", || Violation { key: String::new(), summary: format!("Match in the fixture layout reads as {other:?}, expected {m:?}"), replay: json!({"json": {"token_type": c, "span": {"start": a, "end": b}}}) }),
                }
                for d in [1usize, usize::MAX] {
                    // MatchExt has no public constructor: the value is obtained from the fixture layout
                    let j = json!({"token_type": c, "span": {"start": a, "end": b}, "start_position": {"line": d, "column": a}, "end_position": {"line": b, "column": d}});
                    match serde_json::from_value::<MatchExt>(j.clone()) {
                        Ok(me) => {
                            if me.token_type() != c as usize || me.start() != a_ || me.end() != b_ || me.start_position().line != d || me.end_position().column != d {
                                total.viol.add("", || Violation { key: String::new(), summary: format!("MatchExt in the fixture layout {j} reads as {me:?}"), replay: json!({"json": j}) });
                            }
                            rt(&me, "MatchExt", &mut total.viol);
                        }
                        Err(e) => total.viol.add("", || Violation { key: String::new(), summary: format!("MatchExt in the fixture layout is rejected: {e}"), replay: json!({"json": j}) }),
                    }
                    n_vals += 1;
                }
            }
        }
    }
    // values from real scans
    {
        let sc = Cfg::single(vec![CPat::new("a+", 0), CPat::new("\\n", 65_536), CPat::new("é", 2)]).build_uncached().unwrap();
        for inp in inputs(&['a', '\n', 'é', 'x'], 4) {
            for m in sc.find_iter(&inp).with_positions() {
                n_vals += 1;
                let s = serde_json::to_string(&m).unwrap();
                match serde_json::from_str::<MatchExt>(&s) {
                    Ok(y) if y == m => {}
                    other => total.viol.add("", || Violation { key: String::new(), summary: format!("MatchExt {m:?} from a real scan serializes to {s} and reads back as {other:?}"), replay: json!({"json": s}) }),
                }
            }
            for m in sc.find_iter(&inp) {
                n_vals += 1;
                rt(&m, "Match (from a real scan)", &mut total.viol);
            }
        }
    }
    fams.push(json!({"family": "Match / MatchExt / Span / Position over {0,1,255,2^32-1,2^32,2^53+1,2^64-1} per field (values obtained by deserialization) and from real scans", "values": n_vals, "exhaustive": true}));

    let n_dis = total.viol.total();
    std::mem::take(&mut total.viol).flush(&mut run);
    let mut cov = Map::new();
    cov.insert("evaluations".into(), json!(total.n + n_vals));
    cov.insert("distinct_nontrivial".into(), json!(total.with_la));
    cov.insert("rule".into(), json!("one evaluation = one configuration (or value) serialized by to_string, to_string_pretty and to_value, each read back, compared with ==, re-serialized, compared with an independently hand-written JSON in the README layout (both directions) and, if it builds, compared in behaviour with its read-back twin; all configurations are distinct by construction; non-trivial = the configuration contains a lookahead"));
    cov.insert("samples".into(), json!(total.samples.items));
    cov.insert("exhaustive".into(), json!(true));
    cov.insert("configurations".into(), json!(total.n));
    cov.insert("configurations_that_build".into(), json!(total.built));
    cov.insert("families".into(), json!(fams));
    cov.insert("disagreeing_cases".into(), json!(n_dis));
    run.finish(
        "exploration",
        cov,
        &["configurations are constructed through the public constructors (ScannerMode::new, Pattern::new, with_lookahead) with sorted transition lists", "token types above u32::MAX are only round-tripped, not compared in behaviour"],
    )
}
