//! E2 `scancheck`: the real iterator is run to exhaustion on every (configuration, input[, start
//! offset]) of a family, in lockstep with the reference scan model.

use bridge::{catch, Cfg};
use refsem::model::{MState, ModeSpec, ScanTable};
use scnr::{Scanner, ScannerModeSwitcher};
use serde_json::{json, Value};

#[derive(Clone, Debug, PartialEq, Eq, Hash, PartialOrd, Ord)]
pub enum Kind {
    /// scanning panicked
    Panic,
    /// a C07 invariant is broken (empty span, out of bounds, not on a char boundary, overlap,
    /// too many tokens, None not sticky)
    Invariant,
    /// a token starts where no pattern (with satisfied lookahead) matches, or the reported
    /// (type, span) is not a candidate at all
    NotACandidate,
    /// a candidate exists at the scan position but no token starting there was reported
    MissingToken,
    /// the reported (type, span) is a candidate but not an admissible choice
    WrongChoice,
    /// the iterator's mode is not the model's mode
    Mode,
}

#[derive(Clone, Debug)]
pub struct Disagreement {
    pub kind: Kind,
    pub detail: String,
    pub offset: usize,
    /// number of (pattern, length) candidates at the position of the disagreement (0 = unknown)
    pub n_candidates: u32,
}

#[derive(Default, Clone, Debug)]
pub struct ScanStats {
    pub tokens: usize,
    /// positions at which at least two patterns competed
    pub competed: usize,
    /// positions at which at least two candidates existed
    pub multi_candidates: usize,
    /// skipped (unmatched) characters
    pub skipped: usize,
    pub mode_switches: usize,
}

/// One lockstep run from `start` (byte offset, `None` = plain `find_iter`).
#[allow(clippy::too_many_arguments)]
pub fn lockstep(sc: &Scanner, spec: &[ModeSpec], table: &ScanTable, input: &str, start: Option<usize>, start_mode: usize, drive_after_none: usize, stats: &mut ScanStats) -> Option<Disagreement> {
    // Run the implementation first (panics caught), recording (token, mode after the call).
    let n_chars = table.n_chars();
    let r = catch(|| {
        let mut it = sc.find_iter(input);
        if start_mode != 0 {
            it.set_mode(start_mode);
        }
        if let Some(o) = start {
            it = it.with_offset(o);
        }
        let mut out: Vec<(Option<(usize, usize, usize)>, usize)> = vec![];
        let mut nones = 0;
        // at most one token per character, then `drive_after_none` more calls
        for _ in 0..(n_chars + 2 + drive_after_none) {
            let m = it.next().map(|m| bridge::tok(&m));
            let mode = it.current_mode();
            out.push((m, mode));
            if m.is_none() {
                nones += 1;
                if nones > drive_after_none {
                    break;
                }
            }
        }
        out
    });
    let calls = match r {
        Ok(c) => c,
        Err(p) => return Some(Disagreement { kind: Kind::Panic, detail: format!("scanning panicked: {p}"), offset: start.unwrap_or(0), n_candidates: 0 }),
    };
    let mut st = MState::initial();
    st.m = start_mode;
    if let Some(o) = start {
        let o = o.min(input.len());
        st.set_offset(table.char_of_byte(o).expect("start offsets are generated on char boundaries"));
    }
    let mut prev_end = 0usize;
    let mut seen_none = false;
    let mut n_tokens = 0usize;
    for (tok, mode_after) in calls {
        match tok {
            None => {
                if !seen_none {
                    if let Some(p) = st.predict_next(table) {
                        return Some(Disagreement {
                            kind: Kind::MissingToken,
                            detail: format!("iteration ended although a token of type {} starts at byte {} (admissible ends {:?})", p.adm.token_type, table.byte_of[p.start], ends_bytes(table, p.adm.ends)),
                            offset: table.byte_of[p.start],
                            n_candidates: 0,
                        });
                    }
                    stats.skipped += n_chars - st.c;
                    st.commit_none(table);
                }
                seen_none = true;
            }
            Some((tt, s, e)) => {
                if seen_none {
                    return Some(Disagreement { kind: Kind::Invariant, detail: format!("token ({tt},{s}..{e}) delivered after the iterator had returned None"), offset: s, n_candidates: 0 });
                }
                n_tokens += 1;
                // C07 invariants
                if e <= s {
                    return Some(Disagreement { kind: Kind::Invariant, detail: format!("empty or inverted span {s}..{e} (type {tt})"), offset: s, n_candidates: 0 });
                }
                if e > input.len() {
                    return Some(Disagreement { kind: Kind::Invariant, detail: format!("span {s}..{e} exceeds the input length {}", input.len()), offset: s, n_candidates: 0 });
                }
                if !input.is_char_boundary(s) || !input.is_char_boundary(e) {
                    return Some(Disagreement { kind: Kind::Invariant, detail: format!("span {s}..{e} is not on character boundaries"), offset: s, n_candidates: 0 });
                }
                if s < prev_end {
                    return Some(Disagreement { kind: Kind::Invariant, detail: format!("span {s}..{e} starts before the end {prev_end} of the previous token"), offset: s, n_candidates: 0 });
                }
                if n_tokens > n_chars {
                    return Some(Disagreement { kind: Kind::Invariant, detail: format!("more tokens ({n_tokens}) than characters ({n_chars})"), offset: s, n_candidates: 0 });
                }
                prev_end = e;
                let (sc_, ec_) = (table.char_of_byte(s).unwrap(), table.char_of_byte(e).unwrap());
                match st.predict_next(table) {
                    None => {
                        return Some(Disagreement { kind: Kind::NotACandidate, detail: format!("token ({tt},{s}..{e}) reported but no pattern of mode {} matches anywhere from byte {}", st.m, table.byte_of[st.c]), offset: s, n_candidates: 0 });
                    }
                    Some(p) => {
                        if sc_ < st.c {
                            return Some(Disagreement { kind: Kind::NotACandidate, detail: format!("token ({tt},{s}..{e}) starts before the scan position {}", table.byte_of[st.c]), offset: s, n_candidates: 0 });
                        }
                        if sc_ > p.start {
                            return Some(Disagreement {
                                kind: Kind::MissingToken,
                                detail: format!("token ({tt},{s}..{e}) reported, but a token of type {} starts earlier at byte {} (admissible ends {:?})", p.adm.token_type, table.byte_of[p.start], ends_bytes(table, p.adm.ends)),
                                offset: table.byte_of[p.start],
                                n_candidates: 0,
                            });
                        }
                        if sc_ < p.start {
                            return Some(Disagreement { kind: Kind::NotACandidate, detail: format!("token ({tt},{s}..{e}) starts at byte {s} where no pattern of mode {} matches with its lookahead satisfied", st.m), offset: s, n_candidates: 0 });
                        }
                        if p.adm.n_patterns > 1 {
                            stats.competed += 1;
                        }
                        if p.adm.n_candidates > 1 {
                            stats.multi_candidates += 1;
                        }
                        if !p.adm.is_candidate(&spec[st.m], tt, ec_) {
                            return Some(Disagreement {
                                kind: Kind::NotACandidate,
                                detail: format!("token ({tt},{s}..{e}): no pattern with token type {tt} matches exactly {:?} with its lookahead satisfied at byte {e}; expected type {} with end in {:?}", &input[s..e], p.adm.token_type, ends_bytes(table, p.adm.ends)),
                                offset: s,
                                n_candidates: p.adm.n_candidates,
                            });
                        }
                        if tt != p.adm.token_type || p.adm.ends >> ec_ & 1 == 0 {
                            return Some(Disagreement {
                                kind: Kind::WrongChoice,
                                detail: format!("token ({tt},{s}..{e}) is a candidate but not the admissible choice: expected type {} with end in {:?} (longest extent, then first pattern)", p.adm.token_type, ends_bytes(table, p.adm.ends)),
                                offset: s,
                                n_candidates: p.adm.n_candidates,
                            });
                        }
                        stats.skipped += sc_ - st.c;
                        let before = st.m;
                        st.commit_next(spec, ec_, tt);
                        if st.m != before {
                            stats.mode_switches += 1;
                        }
                    }
                }
                stats.tokens += 1;
            }
        }
        if mode_after != st.m {
            return Some(Disagreement { kind: Kind::Mode, detail: format!("current_mode() is {mode_after}, the configured transitions give {}", st.m), offset: prev_end, n_candidates: 0 });
        }
    }
    if !seen_none {
        return Some(Disagreement { kind: Kind::Invariant, detail: "iteration did not end after one call per character plus two".into(), offset: prev_end, n_candidates: 0 });
    }
    None
}

fn ends_bytes(t: &ScanTable, mut ends: u64) -> Vec<usize> {
    let mut v = vec![];
    while ends != 0 {
        let e = ends.trailing_zeros() as usize;
        ends &= ends - 1;
        v.push(t.byte_of[e]);
    }
    v
}

pub fn replay_json(cfg: &Cfg, input: &str, start: Option<usize>, start_mode: usize, d: &Disagreement) -> Value {
    json!({
        "configuration": cfg.to_json(),
        "input": input,
        "calls": ["ScannerBuilder::new().add_scanner_modes(cfg).build_uncached()", format!("find_iter(input){}{}", if start_mode != 0 { format!(".set_mode({start_mode})") } else { String::new() }, match start { Some(o) => format!(".with_offset({o})"), None => String::new() }), "next() until None"],
        "kind": format!("{:?}", d.kind),
        "disagreement": d.detail,
        "at_byte": d.offset,
    })
}

/// Convenience: build spec + scanner of a configuration.
pub fn prepare(cfg: &Cfg) -> Result<(Vec<ModeSpec>, Scanner), String> {
    let spec = cfg.to_spec()?;
    let sc = match catch(|| cfg.build_uncached()) {
        Ok(Ok(sc)) => sc,
        Ok(Err(e)) => return Err(format!("build error: {e}")),
        Err(p) => return Err(format!("build panicked: {p}")),
    };
    Ok((spec, sc))
}

/// Safety-only run (C07): no reference model, only the invariants of a well-formed token stream.
pub fn safety_scan(sc: &Scanner, input: &str, start: Option<usize>, extra_calls: usize, n_tokens_out: &mut usize) -> Option<Disagreement> {
    let n_chars = input.chars().count();
    let r = catch(|| {
        let mut it = sc.find_iter(input);
        if let Some(o) = start {
            it = it.with_offset(o);
        }
        let mut out = vec![];
        let mut nones = 0;
        for _ in 0..(n_chars + 2 + extra_calls) {
            let m = it.next().map(|m| bridge::tok(&m));
            out.push(m);
            if m.is_none() {
                nones += 1;
                if nones > extra_calls {
                    break;
                }
            }
        }
        out
    });
    let calls = match r {
        Ok(c) => c,
        Err(p) => return Some(Disagreement { kind: Kind::Panic, detail: format!("scanning panicked: {p}"), offset: start.unwrap_or(0), n_candidates: 0 }),
    };
    let mut prev_end = start.unwrap_or(0).min(input.len());
    let mut seen_none = false;
    let mut n = 0;
    for c in calls {
        match c {
            None => seen_none = true,
            Some((tt, s, e)) => {
                n += 1;
                let bad = if seen_none {
                    Some("token delivered after None".to_string())
                } else if e <= s {
                    Some("empty or inverted span".to_string())
                } else if e > input.len() {
                    Some(format!("span exceeds the input length {}", input.len()))
                } else if !input.is_char_boundary(s) || !input.is_char_boundary(e) {
                    Some("span not on character boundaries".to_string())
                } else if s < prev_end {
                    Some(format!("span starts before the previous end / the start offset {prev_end}"))
                } else if n > n_chars {
                    Some(format!("more tokens than characters ({n_chars})"))
                } else {
                    None
                };
                if let Some(b) = bad {
                    return Some(Disagreement { kind: Kind::Invariant, detail: format!("token ({tt},{s}..{e}): {b}"), offset: s, n_candidates: 0 });
                }
                prev_end = e;
            }
        }
    }
    *n_tokens_out += n;
    if !seen_none {
        return Some(Disagreement { kind: Kind::Invariant, detail: "iteration did not end after one call per character plus two".into(), offset: prev_end, n_candidates: 0 });
    }
    None
}
