//! C15: unsupported regex features are rejected, never mis-compiled; build is total.

use bridge::{catch, CMode, CPat, Cfg};
use refsem::evidence::{Run, Samples, Tier, ViolAcc, Violation};
use refsem::par::par_for;
use regex_syntax::ast::{self, Ast};
use serde_json::{json, Map};
use std::collections::BTreeMap;
use std::sync::Mutex;

/// The Unicode class names scnr documents as supported at the pinned commit (one-letter general
/// categories and binary properties).
const DOCUMENTED_UNICODE: [&str; 59] = [
    "L", "N", "Z", "P", "C", "Alphabetic", "ASCII_Hex_Digit", "Bidi_Control", "Case_Ignorable", "Cased", "Composition_Exclusion", "Dash", "Default_Ignorable_Code_Point", "Deprecated", "Diacritic", "Emoji_Component",
    "Emoji_Modifier_Base", "Emoji_Modifier", "Emoji_Presentation", "Emoji", "Extended_Pictographic", "Extender", "Full_Composition_Exclusion", "Grapheme_Extend", "Hex_Digit", "Hyphen", "ID_Continue", "ID_Start",
    "Ideographic", "IDS_Binary_Operator", "IDS_Trinary_Operator", "Join_Control", "Logical_Order_Exception", "Lowercase", "Math", "Noncharacter_Code_Point", "Other_Alphabetic", "Other_Default_Ignorable_Code_Point",
    "Other_Grapheme_Extend", "Other_ID_Continue", "Other_ID_Start", "Other_Lowercase", "Other_Math", "Other_Uppercase", "Pattern_Syntax", "Pattern_White_Space", "Prepended_Concatenation_Mark", "Quotation_Mark",
    "Radical", "Regional_Indicator", "Sentence_Terminal", "Soft_Dotted", "Terminal_Punctuation", "Unified_Ideograph", "Uppercase", "Variation_Selector", "White_Space", "XID_Continue", "XID_Start",
];

#[derive(Debug, Clone, Copy, PartialEq, Eq, PartialOrd, Ord)]
enum Class {
    SyntaxErr,
    Unsupported,
    Supported,
}

/// Stand-alone verdict of a named Unicode class (opaque, memoised): does the class alone build?
fn standalone_ok(text: &str) -> bool {
    static MEMO: Mutex<BTreeMap<String, bool>> = Mutex::new(BTreeMap::new());
    if let Some(v) = MEMO.lock().unwrap().get(text) {
        return *v;
    }
    let ok = matches!(catch(|| Cfg::single(vec![CPat::new(text, 0)]).build_uncached().is_ok()), Ok(true));
    MEMO.lock().unwrap().insert(text.to_string(), ok);
    ok
}

fn unicode_unsupported(u: &ast::ClassUnicode) -> bool {
    match &u.kind {
        ast::ClassUnicodeKind::NamedValue { .. } => true,
        _ => {
            // decide by the positive form used alone
            let mut p = u.clone();
            p.negated = false;
            let text = Ast::ClassUnicode(Box::new(p)).to_string();
            !standalone_ok(&text)
        }
    }
}

fn set_unsupported(s: &ast::ClassSet) -> bool {
    match s {
        ast::ClassSet::Item(i) => item_unsupported(i),
        ast::ClassSet::BinaryOp(b) => set_unsupported(&b.lhs) || set_unsupported(&b.rhs),
    }
}

fn item_unsupported(i: &ast::ClassSetItem) -> bool {
    use ast::ClassSetItem::*;
    match i {
        Unicode(u) => unicode_unsupported(u),
        Bracketed(b) => set_unsupported(&b.kind),
        Union(u) => u.items.iter().any(item_unsupported),
        _ => false,
    }
}

fn unsupported(a: &Ast) -> bool {
    match a {
        Ast::Empty(_) | Ast::Literal(_) | Ast::Dot(_) | Ast::ClassPerl(_) => false,
        Ast::Flags(_) | Ast::Assertion(_) => true,
        Ast::ClassUnicode(u) => unicode_unsupported(u),
        Ast::ClassBracketed(b) => set_unsupported(&b.kind),
        Ast::Repetition(r) => !r.greedy || unsupported(&r.ast),
        Ast::Group(g) => {
            (match &g.kind {
                ast::GroupKind::NonCapturing(f) => f.items.iter().any(|i| matches!(i.kind, ast::FlagsItemKind::Flag(_))),
                _ => false,
            }) || unsupported(&g.ast)
        }
        Ast::Alternation(x) => x.asts.iter().any(unsupported),
        Ast::Concat(x) => x.asts.iter().any(unsupported),
    }
}

fn classify(p: &str) -> Class {
    match ast::parse::Parser::new().parse(p) {
        Err(_) => Class::SyntaxErr,
        Ok(a) => {
            if unsupported(&a) {
                Class::Unsupported
            } else {
                Class::Supported
            }
        }
    }
}

const TOKS: [&str; 31] = ["a", "b", ".", "|", "(", ")", "*", "+", "?", "{0}", "{2}", "{1,2}", "{,}", "[", "]", "^", "$", "-", "\\b", "\\B", "\\A", "\\z", "\\d", "\\pL", "\\p{Foo}", "\\p{sc=Greek}", "(?i)", "(?:", "(?=", "*?", "&&"];

fn token_string(mut k: usize, len: usize) -> String {
    let mut s = String::new();
    for _ in 0..len {
        s.push_str(TOKS[k % TOKS.len()]);
        k /= TOKS.len();
    }
    s
}

#[derive(Default)]
struct Acc {
    n: usize,
    stats: BTreeMap<String, usize>,
    viol: ViolAcc,
    samples: Samples,
}

/// Child process of family (h): `c15-deep <shape> <depth> <pattern|lookahead>`; prints ok / err / panic.
pub fn deep_child(args: &[String]) -> ! {
    let shape = args[0].as_str();
    let d: usize = args[1].parse().expect("depth");
    let pat = match shape {
        "groups" => format!("{}a{}", "(".repeat(d), ")".repeat(d)),
        "alternations" => format!("{}a{}", "(a|".repeat(d), ")".repeat(d)),
        "repetitions" => format!("{}a{}", "(".repeat(d), ")*".repeat(d)),
        "classes" => format!("{}{}", "[a".repeat(d), "]".repeat(d)),
        _ => format!("{}{}", "(a".repeat(d), ")".repeat(d)),
    };
    let cfg = if args[2] == "lookahead" { Cfg::single(vec![CPat::new("a", 0).with_la(true, &pat)]) } else { Cfg::single(vec![CPat::new(&pat, 0)]) };
    let h = std::thread::Builder::new().stack_size(2 << 20).spawn(move || build_outcome(&cfg, false)).expect("spawn");
    let r = h.join().unwrap_or("panic");
    println!("{r}");
    std::process::exit(0)
}

fn build_outcome(cfg: &Cfg, cached: bool) -> &'static str {
    match catch(|| if cached { cfg.build_cached().is_ok() } else { cfg.build_uncached().is_ok() }) {
        Ok(true) => "ok",
        Ok(false) => "err",
        Err(_) => "panic",
    }
}

fn judge(acc: &mut Acc, what: &str, cfg: &Cfg, expect_ok: bool, cached: bool, label: &str) {
    acc.n += 1;
    let got = build_outcome(cfg, cached);
    *acc.stats.entry(format!("{label}:{}:{got}", if expect_ok { "supported" } else { "rejected" })).or_default() += 1;
    if got == "panic" || (got == "ok") != expect_ok {
        acc.viol.add("", || Violation {
            key: String::new(),
            summary: format!("{what}: build{} returned {got}, expected {}", if cached { "" } else { "_uncached" }, if expect_ok { "a scanner" } else { "an error" }),
            replay: json!({"configuration": cfg.to_json(), "call": if cached { "ScannerBuilder::build()" } else { "ScannerBuilder::build_uncached()" }, "got": got, "expected": if expect_ok { "Ok" } else { "Err" }, "why": what}),
        });
    }
}

/// Wraps `h` into every context of the given depth.
fn contexts(h: &str, depth: usize) -> Vec<String> {
    let mut cur = vec![h.to_string()];
    let mut all = cur.clone();
    for _ in 0..depth {
        let mut next = vec![];
        for x in &cur {
            for c in [
                format!("({x})"),
                format!("(?:{x})"),
                format!("(?P<n>{x})"),
                format!("({x})*"),
                format!("({x})+"),
                format!("({x})?"),
                format!("({x}){{0}}"),
                format!("({x}){{1}}"),
                format!("({x}){{0,1}}"),
                format!("({x}){{0,}}"),
                format!("({x}){{0,0}}"),
                format!("({x}){{1,1}}"),
                format!("({x}){{2,2}}"),
                format!("({x}){{0,2}}"),
                format!("({x}){{2}}"),
                format!("({x}){{1,2}}"),
                format!("({x}){{2,}}"),
                format!("({x})|a"),
                format!("a|({x})"),
                format!("a({x})"),
                format!("({x})a"),
                format!("a(({x})|b)c"),
                format!("(|({x}))"),
            ] {
                next.push(c);
            }
        }
        all.extend(next.iter().cloned());
        cur = next;
    }
    all
}

/// Places pattern `p` into slot `slot` of a two-mode configuration.
fn in_slot(p: &str, slot: usize) -> Cfg {
    let mut m0 = vec![CPat::new("x", 0), CPat::new("y", 1)];
    let mut m1 = vec![CPat::new("x", 0), CPat::new("y", 1)];
    match slot {
        0 => m0[0].pat = p.to_string(),
        1 => m0[1].pat = p.to_string(),
        2 => m1[0].pat = p.to_string(),
        3 => m1[1].pat = p.to_string(),
        4 => m0[0].la = Some((true, p.to_string())),
        5 => m0[1].la = Some((false, p.to_string())),
        6 => m1[0].la = Some((false, p.to_string())),
        7 => m1[1].la = Some((true, p.to_string())),
        // two patterns of one mode sharing a token type, both with a lookahead
        8 | 9 => {
            m0[0].tt = 5;
            m0[1].tt = 5;
            m0[0].la = Some((true, if slot == 8 { p.to_string() } else { "y".to_string() }));
            m0[1].la = Some((false, if slot == 9 { p.to_string() } else { "x".to_string() }));
        }
        10 => {
            // three patterns with one token type, the last one carries the construct as its lookahead
            m1.push(CPat { pat: "z".into(), tt: 1, la: Some((true, p.to_string())) });
            m1[1].la = Some((true, "x".to_string()));
        }
        _ => {
            // the same token type in both modes, the construct in the second mode's pattern
            m1[0].tt = 1;
            m1[0].pat = p.to_string();
        }
    }
    Cfg { modes: vec![CMode { name: "A".into(), pats: m0, transitions: vec![(1, 1)] }, CMode { name: "B".into(), pats: m1, transitions: vec![(0, 0)] }] }
}

pub fn run(tier: Tier) -> ! {
    let mut run = Run::new("C15", tier);
    let mut total = Acc { samples: Samples::new(10), ..Default::default() };
    let mut fams = vec![];
    // fixed anchors of the statement
    for (p, ok) in [("\\pL", true), ("\\p{Alphabetic}", true), ("\\p{XID_Start}", true), ("\\p{Foo}", false), ("\\pX", false), ("\\p{sc=Greek}", false), ("[a-c]+\\d*(x|y)?", true), ("a*?", false), ("^a", false), ("a$", false), ("\\bword", false), ("(?i)a", false), ("(?i:a)", false), ("(?=a)", false), ("(?<!a)b", false)] {
        judge(&mut total, &format!("anchor pattern {p:?}"), &Cfg::single(vec![CPat::new(p, 0)]), ok, false, "anchor");
    }

    // degenerate configurations build (uncached and through the cache)
    for cached in [false, true] {
        judge(&mut total, "no modes at all", &Cfg { modes: vec![] }, true, cached, "anchor");
        judge(&mut total, "one mode without patterns", &Cfg { modes: vec![CMode { name: "M".into(), pats: vec![], transitions: vec![] }] }, true, cached, "anchor");
        judge(&mut total, "empty pattern", &Cfg::single(vec![CPat::new("", 0)]), true, cached, "anchor");
    }

    // (a) every token string of length <= L
    let l = if tier == Tier::Quick { 4 } else { 5 };
    for len in 0..=l {
        let n = TOKS.len().pow(len as u32);
        let accs = par_for(n, 4096, || Acc { samples: Samples::new(1), ..Default::default() }, |acc, k| {
            let s = token_string(k, len);
            let c = classify(&s);
            let cfg = Cfg::single(vec![CPat::new(&s, 0)]);
            judge(acc, &format!("pattern {s:?} classified {c:?}"), &cfg, c == Class::Supported, false, "tokens");
            if acc.samples.items.is_empty() && c == Class::Unsupported && len >= 3 {
                acc.samples.push(|| json!({"pattern": s, "class": format!("{c:?}")}));
            }
        });
        for a in accs {
            merge(&mut total, a);
        }
    }
    fams.push(json!({"family": format!("(a) every string of <= {l} tokens over the 31-token regex alphabet as a pattern"), "token_alphabet": TOKS, "exhaustive": true}));

    // (b) structured: contexts x constructs x slots
    let bad = ["^", "$", "\\b", "\\B", "\\A", "\\z", "(?i)", "(?i:a)", "(?-i:a)", "(?s-i:a)", "a*?", "a+?", "a??", "a{2}?", "a{1,2}?", "(?=a)", "(?!a)", "(?<=a)", "\\p{Foo}", "\\pX", "\\p{sc=Greek}", "\\p{Greek}", "[\\p{Foo}]", "[a&&\\p{sc=Greek}]", "[a[^\\pX]]", "\\P{gc:Lu}", "(", "a)", "[a", "a{2", "*", "\\"];
    let good = ["a", ".", "[a-c]", "[^a]", "\\d", "\\W", "\\pL", "\\PL", "\\p{Alphabetic}", "\\p{XID_Start}", "[\\pL&&[^a]]", "()", "", "a{0}", "[[:alpha:]--a]", "\\u{1F600}", "\\.", "a|", "|a"];
    let depth = if tier == Tier::Quick { 2 } else { 3 };
    let mut cases: Vec<(String, bool, usize)> = vec![];
    for (list, ok) in [(&bad[..], false), (&good[..], true)] {
        for h in list {
            for (ci, c) in contexts(h, depth).into_iter().enumerate() {
                // all slots for shallow contexts, a rotating slot deeper down (still every context)
                if ci < 24 {
                    for slot in 0..12 {
                        cases.push((c.clone(), ok, slot));
                    }
                } else {
                    cases.push((c.clone(), ok, ci % 12));
                    cases.push((c, ok, (ci / 12) % 12));
                }
            }
        }
    }
    let accs = par_for(cases.len(), 256, || Acc { samples: Samples::new(1), ..Default::default() }, |acc, i| {
        let (p, ok, slot) = &cases[i];
        // `|` at top level of a context built around a syntax error stays a syntax error: the
        // expectation for planted *good* constructs is re-derived from the classification oracle.
        let expect = if *ok { classify(p) == Class::Supported } else { false };
        // Slots 8..10 put two patterns with one token type and different lookaheads into a mode.
        // Whether such a mode may build at all is not part of this property (rejecting it is a
        // legitimate answer to the known finding S8), so only the "must be rejected" direction is
        // judged there.
        if expect && (8..=10).contains(slot) {
            return;
        }
        let cfg = in_slot(p, *slot);
        judge(acc, &format!("{} construct planted: pattern {p:?} in slot {slot}", if *ok { "supported" } else { "unsupported" }), &cfg, expect, false, "structured");
        if acc.samples.items.is_empty() && i % 977 == 0 {
            acc.samples.push(|| json!({"pattern": p, "slot": slot, "expected_to_build": expect}));
        }
    });
    for a in accs {
        merge(&mut total, a);
    }
    fams.push(json!({"family": format!("(b) {} unsupported/erroneous and {} supported constructs x every context of depth <= {depth} (23 wrappers per level) x 12 slots (pattern 1/2 of mode 0/1, positive/negative lookahead of each, lookaheads of patterns sharing a token type, token types shared across modes)", bad.len(), good.len()), "cases": cases.len(), "exhaustive": true}));

    // (d) long patterns: literal runs of 1..4-byte characters of every length around typical
    // buffer / message-abbreviation sizes, with a construct planted at the start, the end or nested
    {
        let mut cases: Vec<(String, bool)> = vec![];
        for ch in ["a", "é", "あ", "😀"] {
            for pre in 0..70usize {
                let run: String = format!("{}{}", "a".repeat(pre), ch.repeat(24));
                for (tmpl, ok) in [("{r}", true), ("^{r}", false), ("{r}$", false), ("{r}\\b", false), ("({r}x*?)+", false), ("{r}(?i)", false), ("({r}|\\p{Foo})", false), ("[{c}\\p{sc=Greek}]{r}", false), ("{r}(", false), ("({r}){2}", true), ("{r}\\pL+", true)] {
                    cases.push((tmpl.replace("{r}", &run).replace("{c}", ch), ok));
                }
            }
        }
        for n in [100usize, 255, 256, 257, 1000, 5000] {
            cases.push(("é".repeat(n), true));
            cases.push((format!("{}^", "é".repeat(n)), false));
            cases.push((format!("({})*?", "😀".repeat(n)), false));
        }
        let accs = par_for(cases.len(), 64, || Acc { samples: Samples::new(1), ..Default::default() }, |acc, i| {
            let (p, ok) = &cases[i];
            let expect = if *ok { classify(p) == Class::Supported } else { false };
            for slot in [0usize, 3, 4, 7, 9, 10] {
                if expect && (8..=10).contains(&slot) {
                    continue;
                }
                judge(acc, &format!("long pattern ({} bytes) {}", p.len(), if expect { "supported" } else { "to be rejected" }), &in_slot(p, slot), expect, false, "long");
            }
            // a long mode name next to a rejected pattern
            if i % 50 == 0 {
                let mut cfg = in_slot(p, 0);
                cfg.modes[0].name = "Ä".repeat(40 + i % 30);
                judge(acc, "long multi-byte mode name", &cfg, expect, false, "long");
            }
        });
        for a in accs {
            merge(&mut total, a);
        }
        fams.push(json!({"family": "(d) long patterns: 0..69 ASCII characters followed by 24 one- to four-byte characters, plain or with an unsupported construct / syntax error planted at the start, at the end or nested; runs of 100..5000 multi-byte characters; slots 0,3,4,7", "patterns": cases.len(), "exhaustive": true}));
    }

    // (e) a supported class next to an unsupported spelling of the same property: classes are
    // registered once per scanner, so the rejected one must not be folded into the accepted one
    {
        let names = ["L", "Lu", "Alphabetic", "White_Space", "Uppercase", "XID_Start", "Greek", "Nd"];
        let mut cases: Vec<(String, Vec<(String, String)>)> = vec![];
        for n in names {
            let goods: Vec<String> = [format!("\\p{{{n}}}"), format!("\\P{{{n}}}"), format!("[\\p{{{n}}}a]"), if n.len() == 1 { format!("\\p{n}") } else { format!("[^\\P{{{n}}}]") }].into_iter().filter(|g| classify(g) == Class::Supported).collect();
            let bads: Vec<String> = vec![format!("\\p{{{n}=Yes}}"), format!("\\p{{{n}:No}}"), format!("\\p{{{n}!=Yes}}"), format!("\\P{{{n}=Yes}}"), format!("\\p{{gc={n}}}"), format!("\\p{{sc:{n}}}"), format!("[\\p{{{n}=Yes}}]"), format!("\\p{{{n}x}}")];
            let mut pairs = vec![];
            for g in &goods {
                for b in &bads {
                    pairs.push((g.clone(), b.clone()));
                }
            }
            cases.push((n.to_string(), pairs));
        }
        let flat: Vec<(String, String)> = cases.into_iter().flat_map(|c| c.1).collect();
        let accs = par_for(flat.len(), 8, || Acc { samples: Samples::new(1), ..Default::default() }, |acc, i| {
            let (g, b) = &flat[i];
            if classify(b) == Class::Supported {
                return; // the oracle itself accepts this spelling: nothing to demand
            }
            let mode = |name: &str, pats: Vec<CPat>| CMode { name: name.into(), pats, transitions: vec![] };
            // (token type 2: a lookahead pattern never shares its token type with another pattern here,
            // see the remark on slots 8..10)
            let la = |p: &str, pos: bool, l: &str| CPat { pat: p.into(), tt: 2, la: Some((pos, l.into())) };
            let layouts: Vec<(&str, Cfg)> = vec![
                ("accepted pattern, then rejected pattern in one mode", Cfg { modes: vec![mode("A", vec![CPat::new(g, 0), CPat::new(b, 1)])] }),
                ("rejected pattern, then accepted pattern in one mode", Cfg { modes: vec![mode("A", vec![CPat::new(b, 0), CPat::new(g, 1)])] }),
                ("accepted in mode 0, rejected in mode 1", Cfg { modes: vec![mode("A", vec![CPat::new(g, 0)]), mode("B", vec![CPat::new(b, 0)])] }),
                ("accepted pattern with the rejected one as its positive lookahead", Cfg { modes: vec![mode("A", vec![la(g, true, b)])] }),
                ("accepted pattern with the rejected one as its negative lookahead", Cfg { modes: vec![mode("A", vec![la(g, false, b)])] }),
                ("accepted lookahead of an earlier pattern, rejected pattern later", Cfg { modes: vec![mode("A", vec![la("a", true, g), CPat::new(b, 1)])] }),
                ("both in one pattern", Cfg::single(vec![CPat::new(&format!("{g}+{b}+"), 0)])),
                ("both in one alternation", Cfg::single(vec![CPat::new(&format!("({g}|{b})"), 0)])),
                ("both in one bracket", Cfg::single(vec![CPat::new(&format!("[{g}{b}]"), 0)])),
            ];
            for (what, cfg) in layouts {
                judge(acc, &format!("{what}: {g:?} and {b:?}"), &cfg, false, false, "twins");
            }
            // and the accepted spelling twice is accepted
            judge(acc, &format!("accepted spelling twice: {g:?}"), &Cfg { modes: vec![mode("A", vec![CPat::new(g, 0), la("a", true, g)]), mode("B", vec![CPat::new(g, 1)])] }, true, false, "twins");
        });
        let n = flat.len();
        for a in accs {
            merge(&mut total, a);
        }
        fams.push(json!({"family": "(e) an accepted spelling of a Unicode property (\\p{N}, \\P{N}, [\\p{N}a], ...) next to a valued / unknown spelling of the same name (\\p{N=Yes}, \\p{N:No}, \\p{N!=Yes}, \\P{N=Yes}, \\p{gc=N}, \\p{sc:N}, [\\p{N=Yes}], \\p{Nx}) for 8 property names, in 9 layouts (same mode either order, other mode, lookahead of it, one pattern, one bracket)", "pairs": n, "exhaustive": true}));
    }

    // (f) ranges and literals at the borders of the scalar value space and of the UTF-8 lengths
    {
        let b: [u32; 13] = [0, 1, 0x7f, 0x80, 0x7ff, 0x800, 0xd7ff, 0xe000, 0xfffd, 0xffff, 0x10000, 0x10fffe, 0x10ffff];
        let mut pats: Vec<String> = vec![];
        for &lo in &b {
            pats.push(format!("\\x{{{lo:x}}}"));
            pats.push(format!("[\\x{{{lo:x}}}]"));
            pats.push(format!("[^\\x{{{lo:x}}}]"));
            for &hi in &b {
                if lo <= hi {
                    let r = format!("\\x{{{lo:x}}}-\\x{{{hi:x}}}");
                    pats.push(format!("[{r}]"));
                    pats.push(format!("[^{r}]+"));
                    pats.push(format!("[a[{r}]]"));
                    pats.push(format!("[{r}&&[^a]]"));
                    pats.push(format!("[\\w--[{r}]]"));
                }
            }
        }
        let accs = par_for(pats.len(), 16, || Acc { samples: Samples::new(1), ..Default::default() }, |acc, i| {
            let p = &pats[i];
            let expect = classify(p) == Class::Supported;
            for slot in [0usize, 3, 4, 6] {
                judge(acc, &format!("border range/literal {p:?} in slot {slot}"), &in_slot(p, slot), expect, false, "borders");
            }
        });
        let n = pats.len();
        for a in accs {
            merge(&mut total, a);
        }
        fams.push(json!({"family": "(f) literals and ranges whose bounds are U+0000, U+0001, U+007F/80, U+07FF/800, U+D7FF, U+E000, U+FFFD, U+FFFF, U+10000, U+10FFFE, U+10FFFF (all ordered pairs), plain, negated, nested, intersected, subtracted; as pattern and as lookahead", "patterns": n, "exhaustive": true}));
    }

    // (g) Unicode class names outside the documented list. A name Unicode does not know must be
    // rejected. A name Unicode knows (general categories, scripts, ...) is documented as
    // unsupported at this commit; should it build nevertheless, it must at least denote its own
    // property and not another class ("never mis-compiled"): its membership over all scalars is
    // compared with regex-syntax's Unicode tables (2 % tolerance for differing Unicode versions).
    {
        let documented: std::collections::BTreeSet<&str> = DOCUMENTED_UNICODE.iter().copied().collect();
        let known_to_unicode = ["Lu", "Ll", "Lt", "Lm", "Lo", "Mn", "Mc", "Me", "Nd", "Nl", "No", "Pc", "Pd", "Ps", "Pe", "Pi", "Pf", "Po", "Sm", "Sc", "Sk", "So", "Zs", "Zl", "Zp", "Cc", "Cf", "Co", "Cn", "M", "S", "Letter", "Uppercase_Letter", "Lowercase_Letter", "Mark", "Number", "Decimal_Number", "Punctuation", "Symbol", "Separator", "Other", "Control", "Latin", "Greek", "Cyrillic", "Han", "Arabic", "Hebrew", "Hiragana", "Katakana", "Thai", "Common", "Inherited", "Armenian", "Devanagari", "Any", "Assigned", "ASCII"];
        let unknown = ["Foo", "Lx", "Latn1", "Nx", "Zz", "Pq", "Cx", "Letters", "Numbers", "Punct", "Ctrl", "Xyz", "Upper_case", "Alpha", "Is_L", "InLatin"];
        let mut items: Vec<(String, Option<&str>)> = vec![];
        for n in known_to_unicode.iter().filter(|n| !documented.contains(**n)) {
            for form in [format!("\\p{{{n}}}"), format!("\\P{{{n}}}"), format!("[\\p{{{n}}}]"), format!("\\p{{^{n}}}")] {
                items.push((form, Some(*n)));
            }
            if n.len() == 1 {
                items.push((format!("\\p{n}"), Some(*n)));
                items.push((format!("\\P{n}"), Some(*n)));
            }
        }
        for n in unknown {
            for form in [format!("\\p{{{n}}}"), format!("\\P{{{n}}}"), format!("[a\\p{{{n}}}]"), format!("\\p{{^{n}}}")] {
                items.push((form, None));
            }
        }
        let accs = par_for(items.len(), 1, || Acc { samples: Samples::new(1), ..Default::default() }, |acc, i| {
            let (pat, known) = &items[i];
            acc.n += 1;
            let cfg = Cfg::single(vec![CPat::new(pat, 0)]);
            let got = build_outcome(&cfg, false);
            *acc.stats.entry(format!("unicode-names:{}:{got}", if known.is_some() { "known-to-unicode" } else { "unknown" })).or_default() += 1;
            let mut problem = None;
            if got == "panic" {
                problem = Some("build panicked".to_string());
            } else if got == "ok" {
                match known {
                    None => problem = Some("a class name Unicode does not know builds".to_string()),
                    Some(_) => {
                        // truth from regex-syntax's tables
                        let truth = regex_syntax::Parser::new().parse(pat).ok().and_then(|h| match h.kind() {
                            regex_syntax::hir::HirKind::Class(regex_syntax::hir::Class::Unicode(c)) => Some(c.ranges().iter().map(|r| (r.start(), r.end())).collect::<Vec<_>>()),
                            _ => None,
                        });
                        match (truth, bridge::tabulate_pattern(pat)) {
                            (Some(ranges), Ok(set)) => {
                                let truth = refsem::sem::CharSet::from_pred(|c| ranges.iter().any(|(a, b)| *a <= c && c <= *b));
                                let differing = truth.zip(&set, |x, y| x ^ y).count();
                                let size = truth.count().min(truth.complement().count()).max(3200);
                                if differing * 50 > size {
                                    problem = Some(format!("the class builds although it is documented as unsupported, and it does not denote its Unicode property: {differing} scalars differ from the Unicode tables (first: {:?})", truth.first_difference(&set)));
                                }
                            }
                            (_, Err(e)) => problem = Some(format!("the class builds but cannot be tabulated: {e}")),
                            (None, _) => {}
                        }
                    }
                }
            }
            if let Some(p) = problem {
                acc.viol.add("", || Violation { key: String::new(), summary: format!("Unicode class {pat:?}: {p}"), replay: json!({"configuration": cfg.to_json(), "call": "ScannerBuilder::build_uncached(), then find_iter over the string of all scalar values", "problem": p}) });
            }
        });
        let n = items.len();
        for a in accs {
            merge(&mut total, a);
        }
        fams.push(json!({"family": "(g) Unicode class names outside the documented list: 58 names Unicode knows (general categories, scripts, Any/Assigned/ASCII) and 16 it does not, as \\p{N}, \\P{N}, [\\p{N}], \\p{^N} (and \\pN for one-letter names): unknown names must be rejected; a known one that builds must denote its own property", "patterns": n, "exhaustive": true}));
    }

    // (h) deeply nested patterns. The conversions are recursive; whatever limit the library sets,
    // a build on an ordinary thread (2 MiB stack, the default of spawned and test threads) ends
    // with a scanner or an error. A stack overflow kills the process, so every build runs in a
    // child process; "killed by a signal" and "panicked" are the violations, Ok/Err are both fine.
    {
        let depths: Vec<usize> = vec![50, 100, 200, 249, 250, 251, 300, 400, 500, 600, 800, 1000, 1023, 1024, 1025, 1500, 2000, 5000, 20000];
        let shapes = ["groups", "alternations", "repetitions", "classes", "concat-groups"];
        // (depth, shape, as lookahead, unoptimised build)
        let items: Vec<(usize, &str, bool, bool)> = depths.iter().flat_map(|d| shapes.iter().flat_map(move |s| [(*d, *s, false, false), (*d, *s, true, false), (*d, *s, false, true), (*d, *s, true, true)])).collect();
        let exe = std::env::current_exe().expect("own path");
        // target/release/pubcheck -> target/debug/deepprobe (built by ./check and setup.sh)
        let probe = exe.parent().and_then(|p| p.parent()).map(|p| p.join("debug").join("deepprobe")).filter(|p| p.exists()).unwrap_or_else(|| refsem::evidence::machinery("harness/target/debug/deepprobe is missing (./check C15 builds it)"));
        let accs = par_for(items.len(), 1, || Acc { samples: Samples::new(1), ..Default::default() }, |acc, i| {
            let (depth, shape, as_lookahead, unoptimised) = items[i];
            acc.n += 1;
            let mut cmd = if unoptimised { std::process::Command::new(&probe) } else { std::process::Command::new(&exe) };
            if !unoptimised {
                cmd.arg("c15-deep");
            }
            let out = cmd.args([shape, &depth.to_string(), if as_lookahead { "lookahead" } else { "pattern" }]).stdout(std::process::Stdio::piped()).stderr(std::process::Stdio::null()).spawn().and_then(|mut child| {
                // watchdog: 60 s
                let start = std::time::Instant::now();
                loop {
                    if let Some(st) = child.try_wait()? {
                        let mut o = String::new();
                        use std::io::Read;
                        if let Some(mut so) = child.stdout.take() {
                            let _ = so.read_to_string(&mut o);
                        }
                        return Ok((Some(st), o));
                    }
                    if start.elapsed().as_secs() > 60 {
                        let _ = child.kill();
                        let _ = child.wait();
                        return Ok((None, String::new()));
                    }
                    std::thread::sleep(std::time::Duration::from_millis(5));
                }
            });
            let verdict = match &out {
                Err(e) => refsem::evidence::machinery(&format!("cannot run the child process of family (h): {e}")),
                Ok((None, _)) => "timeout".to_string(),
                Ok((Some(st), o)) if st.success() => o.trim().to_string(),
                Ok((Some(st), _)) => format!("killed ({st})"),
            };
            *acc.stats.entry(format!("deep:{}:{shape}:{}", if unoptimised { "dev-profile" } else { "release-profile" }, if verdict.starts_with("killed") { "killed" } else { verdict.as_str() })).or_default() += 1;
            if verdict != "ok" && verdict != "err" {
                acc.viol.add("", || Violation {
                    key: String::new(),
                    summary: format!("a {} of {depth} nested {shape}, built on a thread with a 2 MiB stack ({} build): {verdict}, expected a scanner or an error", if as_lookahead { "lookahead" } else { "pattern" }, if unoptimised { "unoptimised" } else { "optimised" }),
                    replay: json!({"pattern_shape": shape, "depth": depth, "build_profile": if unoptimised { "dev (cargo build)" } else { "release with debug assertions" }, "slot": if as_lookahead { "lookahead of pattern a" } else { "pattern" }, "call": "ScannerBuilder::build_uncached() on std::thread::Builder::new().stack_size(2 MiB)", "got": verdict, "expected": "Ok or Err", "how_to_build_the_pattern": "groups: '('*d + 'a' + ')'*d; alternations: '(a|'*d + 'a' + ')'*d; repetitions: '('*d + 'a' + ')*'*d; classes: '[a'*d + ']'*d; concat-groups: '(a'*d + ')'*d"}),
                });
            }
        });
        let n = items.len();
        for a in accs {
            merge(&mut total, a);
        }
        fams.push(json!({"family": "(h) nesting depths 50..20 000 (around 250 and 1 024 in steps of one) of groups, alternations, repetitions, bracket classes and concatenated groups, as pattern and as lookahead, each built in a child process on a thread with a 2 MiB stack, once optimised and once unoptimised (dev profile): a scanner or an error, never a panic or a killed process", "patterns": n, "exhaustive": true}));
    }

    // (c) through the cache: classification independent of the cache, no panic poisons it
    let lc = if tier == Tier::Quick { 3 } else { 4 };
    let mut acc = Acc { samples: Samples::new(1), ..Default::default() };
    for len in 0..=lc {
        let n = TOKS.len().pow(len as u32);
        for k in 0..n {
            let s = token_string(k, len);
            let c = classify(&s);
            let cfg = Cfg::single(vec![CPat::new(&s, 0)]);
            judge(&mut acc, &format!("pattern {s:?} classified {c:?} (through the process-wide cache)"), &cfg, c == Class::Supported, true, "cached");
            if acc.viol.total() > 50 {
                break;
            }
        }
    }
    // a second pass over the shortest strings: every verdict must be reproduced with a warm cache
    for len in 0..=2 {
        for k in 0..TOKS.len().pow(len as u32) {
            let s = token_string(k, len);
            let c = classify(&s);
            judge(&mut acc, &format!("pattern {s:?} classified {c:?} (second build, warm cache)"), &Cfg::single(vec![CPat::new(&s, 0)]), c == Class::Supported, true, "cached-again");
        }
    }
    merge(&mut total, acc);
    fams.push(json!({"family": format!("(c) every token string of length <= {lc} through build() (process-wide cache), then lengths <= 2 again"), "exhaustive": true}));

    let n_dis = total.viol.total();
    let stats = total.stats.clone();
    std::mem::take(&mut total.viol).flush(&mut run);
    let nontrivial: usize = stats.iter().filter(|(k, _)| k.contains(":rejected:")).map(|(_, v)| *v).sum();
    let mut cov = Map::new();
    cov.insert("evaluations".into(), json!(total.n));
    cov.insert("distinct_nontrivial".into(), json!(nontrivial));
    cov.insert("rule".into(), json!("one evaluation = one configuration handed to build()/build_uncached() inside catch_unwind with debug assertions on; all configurations are distinct by construction; non-trivial = the oracle demands an error (syntax error or unsupported construct somewhere in the configuration)"));
    cov.insert("samples".into(), json!(total.samples.items));
    cov.insert("exhaustive".into(), json!(true));
    cov.insert("outcomes(family:expected:got)".into(), json!(stats));
    cov.insert("families".into(), json!(fams));
    cov.insert("disagreeing_configurations".into(), json!(n_dis));
    run.finish(
        "exploration",
        cov,
        &[
            "classification oracle: regex-syntax's parse verdict, then an AST walk for Flags / Assertion / non-greedy / flagged group / valued Unicode class; a named Unicode class is unsupported iff it does not build when used alone (fixed anchors: \\pL, \\p{Alphabetic}, \\p{XID_Start} build; \\p{Foo}, \\pX, \\p{sc=Greek} do not)",
            "repetition counts stay <= 3: huge counts are resource exhaustion, not this property",
        ],
    )
}

fn merge(a: &mut Acc, b: Acc) {
    a.n += b.n;
    for (k, v) in b.stats {
        *a.stats.entry(k).or_default() += v;
    }
    a.viol.merge(b.viol);
    a.samples.merge(b.samples);
}
