//! Families of configurations used by the public-API checks.

use bridge::{CPat, Cfg};
use refsem::families::g_upto;

/// `Sets(k1;k2;k3)` enumerated by index.
pub struct SetsFamily {
    pub g1: Vec<String>,
    pub g2: Vec<String>,
    pub g3: Vec<String>,
}

impl SetsFamily {
    pub fn new(k1: usize, k2: usize, k3: usize) -> Self {
        SetsFamily { g1: g_upto(k1), g2: g_upto(k2), g3: if k3 == 0 { vec![] } else { g_upto(k3) } }
    }
    pub fn len(&self) -> usize {
        self.g1.len() + self.g2.len().pow(2) + self.g3.len().pow(3)
    }
    pub fn get(&self, mut i: usize) -> Vec<&str> {
        if i < self.g1.len() {
            return vec![&self.g1[i]];
        }
        i -= self.g1.len();
        let n2 = self.g2.len();
        if i < n2 * n2 {
            return vec![&self.g2[i / n2], &self.g2[i % n2]];
        }
        i -= n2 * n2;
        let n3 = self.g3.len();
        vec![&self.g3[i / (n3 * n3)], &self.g3[(i / n3) % n3], &self.g3[i % n3]]
    }
}

pub fn cfg_of(pats: &[&str], tts: &[usize]) -> Cfg {
    Cfg::single(pats.iter().zip(tts.iter()).map(|(p, t)| CPat::new(p, *t)).collect())
}
