//! C12: scanners and iterators are isolated from each other and from their past (E3m).
//! All interleavings of two per-iterator scripts plus one scanner-level event on one Scanner (and
//! on two scanners sharing one cached compilation); oracle = the same script run alone on a fresh,
//! uncached scanner. No reference semantics involved.

use bridge::{catch, CMode, CPat, Cfg};
use refsem::evidence::{Run, Samples, Tier, ViolAcc, Violation};
use refsem::model::ScanTable;
use refsem::par::par_for;
use scnr::{FindMatches, PositionProvider, Scanner, ScannerModeSwitcher};
use serde_json::{json, Map};
use std::collections::{BTreeSet, HashMap};

#[derive(Clone, Copy, Debug, PartialEq, Eq, Hash)]
enum Op {
    Next,
    Peek2,
    SetMode1,
    SetOffset1,
}

const OPS: [Op; 4] = [Op::Next, Op::Peek2, Op::SetMode1, Op::SetOffset1];

fn op_name(o: Op) -> &'static str {
    match o {
        Op::Next => "next()",
        Op::Peek2 => "peek_n(2)",
        Op::SetMode1 => "set_mode(1)",
        Op::SetOffset1 => "set_offset(1)",
    }
}

fn apply(it: &mut FindMatches, op: Op) -> String {
    match op {
        Op::Next => format!("{:?}|m{}", it.next().map(|m| bridge::tok(&m)), it.current_mode()),
        Op::Peek2 => format!("{:?}|m{}", it.peek_n(2), it.current_mode()),
        Op::SetMode1 => {
            it.set_mode(1);
            format!("m{}", it.current_mode())
        }
        Op::SetOffset1 => {
            it.set_offset(1);
            format!("m{}", it.current_mode())
        }
    }
}

fn scripts(max_len: usize) -> Vec<Vec<Op>> {
    let mut all: Vec<Vec<Op>> = vec![vec![]];
    let mut cur: Vec<Vec<Op>> = vec![vec![]];
    for _ in 0..max_len {
        let mut next = vec![];
        for s in &cur {
            for o in OPS {
                let mut t = s.clone();
                t.push(o);
                next.push(t);
            }
        }
        all.extend(next.iter().cloned());
        cur = next;
    }
    all
}

/// All interleavings of `a` steps of A and `b` steps of B as bit strings (false = A's turn).
fn interleavings(a: usize, b: usize) -> Vec<Vec<bool>> {
    fn go(a: usize, b: usize, cur: &mut Vec<bool>, out: &mut Vec<Vec<bool>>) {
        if a == 0 && b == 0 {
            out.push(cur.clone());
            return;
        }
        if a > 0 {
            cur.push(false);
            go(a - 1, b, cur, out);
            cur.pop();
        }
        if b > 0 {
            cur.push(true);
            go(a, b - 1, cur, out);
            cur.pop();
        }
    }
    let mut out = vec![];
    go(a, b, &mut vec![], &mut out);
    out
}

#[derive(Clone, Copy, Debug, PartialEq, Eq)]
enum Event {
    None,
    ScannerSetMode1,
    DropA,
    NewC,
    /// `Scanner::set_mode(1)` and then a new iterator from that scanner
    SetModeThenNewC,
    /// drop A (in whatever mode it is) and then a new iterator from the same scanner
    DropAThenNewC,
}

fn cfgs() -> Vec<Cfg> {
    let la = |p: &str, tt: usize, pos: bool, l: &str| CPat::new(p, tt).with_la(pos, l);
    vec![
        Cfg {
            modes: vec![
                CMode { name: "A".into(), pats: vec![la("a", 0, true, "b"), CPat::new("b", 1), CPat::new("a", 2)], transitions: vec![(1, 1)] },
                CMode { name: "B".into(), pats: vec![CPat::new("b+", 0), CPat::new("a", 1)], transitions: vec![(0, 0)] },
            ],
        },
        Cfg {
            modes: vec![
                CMode { name: "A".into(), pats: vec![CPat::new("[ab]+", 0), CPat::new("x", 1)], transitions: vec![(1, 1)] },
                CMode { name: "B".into(), pats: vec![CPat::new("a", 0), CPat::new("b", 2), la("x", 1, false, "x")], transitions: vec![(1, 0)] },
            ],
        },
        // modes with disjoint alphabets: the rest of the input may hold no token of the current mode
        Cfg {
            modes: vec![
                CMode { name: "LETTERS".into(), pats: vec![CPat::new("[a-z]+", 0)], transitions: vec![] },
                CMode { name: "DIGITS".into(), pats: vec![CPat::new("[0-9]+", 1)], transitions: vec![] },
            ],
        },
        // mode 0 switches, mode 1 has no transitions at all (the target of Scanner::set_mode(1))
        Cfg {
            modes: vec![
                CMode { name: "A".into(), pats: vec![CPat::new("a", 0), CPat::new("b", 1)], transitions: vec![(1, 1)] },
                CMode { name: "B".into(), pats: vec![CPat::new("a+", 2), CPat::new("b", 3)], transitions: vec![] },
            ],
        },
        // line feeds as tokens, characters nothing matches behind them (positions are observed)
        // (a second mode that is only reached by set_mode(1))
        Cfg { modes: vec![CMode { name: "LINES".into(), pats: vec![CPat::new("\\n", 0), CPat::new("[a-z]+", 1)], transitions: vec![] }, CMode { name: "X".into(), pats: vec![CPat::new("[a-z]", 2)], transitions: vec![] }] },
        // a lookahead candidate that ends exactly at the end of the input
        Cfg { modes: vec![CMode { name: "LA".into(), pats: vec![la("a", 0, true, "b"), CPat::new("[a-z]", 1)], transitions: vec![] }, CMode { name: "X".into(), pats: vec![CPat::new("[a-z]+", 2)], transitions: vec![] }] },
    ]
}

#[derive(Default)]
struct Acc {
    runs: usize,
    nontrivial: usize,
    viol: ViolAcc,
    samples: Samples,
    outcomes: BTreeSet<u64>,
}

fn h(s: &str) -> u64 {
    let mut x = 0xcbf29ce484222325u64;
    for b in s.bytes() {
        x = (x ^ b as u64).wrapping_mul(0x100000001b3);
    }
    x
}

pub fn run(tier: Tier) -> ! {
    let mut run = Run::new("C12", tier);
    let max_len = if tier == Tier::Quick { 2 } else { 3 };
    let all_scripts = scripts(max_len);
    let inputs = [("abxab", "bbaxb"), ("xab", "axxb"), ("12 34", "ab 12"), ("abaab", "bab"), ("ab\nc #\nd", "\n#a\n"), ("acabca", "ba")];
    let mut total = Acc { samples: Samples::new(6), ..Default::default() };
    let mut fams = vec![];
    for (ci, cfg) in cfgs().into_iter().enumerate() {
        let (i1, i2) = inputs[ci];
        // baseline: every script alone on a fresh uncached scanner
        let mut base: HashMap<(Vec<Op>, &str), Vec<String>> = HashMap::new();
        for s in &all_scripts {
            for inp in [i1, i2] {
                let r = catch(|| {
                    let sc = cfg.build_uncached().expect("configuration builds");
                    let mut it = sc.find_iter(inp);
                    s.iter().map(|o| apply(&mut it, *o)).collect::<Vec<_>>()
                });
                match r {
                    Ok(obs) => {
                        base.insert((s.clone(), inp), obs);
                    }
                    Err(p) => {
                        // a panic of a single iterator is not an isolation problem; skip the script
                        let _ = p;
                    }
                }
            }
        }
        let pairs: Vec<(usize, usize)> = (0..all_scripts.len()).flat_map(|a| (0..all_scripts.len()).map(move |b| (a, b))).collect();
        for variant in ["one Scanner from build_uncached()", "two Scanners from build() sharing one cached compilation"] {
            let shared_cache = variant.starts_with("two");
            let accs = par_for(pairs.len(), 8, || Acc { samples: Samples::new(1), ..Default::default() }, |acc, pi| {
                let (ai, bi) = pairs[pi];
                let (sa, sb) = (&all_scripts[ai], &all_scripts[bi]);
                let (Some(want_a), Some(want_b)) = (base.get(&(sa.clone(), i1)), base.get(&(sb.clone(), i2))) else { return };
                let sc_script: Vec<Op> = vec![Op::Next, Op::Next];
                let want_c = base.get(&(sc_script.clone(), i2));
                for il in interleavings(sa.len(), sb.len()) {
                    let mut events = vec![(Event::None, 0usize)];
                    for pos in 0..=il.len() {
                        events.push((Event::ScannerSetMode1, pos));
                        events.push((Event::DropA, pos));
                        events.push((Event::NewC, pos));
                        events.push((Event::SetModeThenNewC, pos));
                        events.push((Event::DropAThenNewC, pos));
                    }
                    for (ev, pos) in events {
                        acc.runs += 1;
                        let r = catch(|| {
                            let (mut s1, s2): (Scanner, Option<Scanner>) = if shared_cache { (cfg.build_cached().unwrap(), Some(cfg.build_cached().unwrap())) } else { (cfg.build_uncached().unwrap(), None) };
                            let mut a = Some(s1.find_iter(i1));
                            let mut b = s2.as_ref().unwrap_or(&s1).find_iter(i2);
                            let (mut oa, mut ob, mut oc) = (vec![], vec![], vec![]);
                            let (mut ia, mut ib) = (0, 0);
                            for step in 0..=il.len() {
                                if step == pos {
                                    match ev {
                                        Event::None => {}
                                        Event::ScannerSetMode1 => s1.set_mode(1),
                                        Event::DropA => a = None,
                                        Event::NewC | Event::SetModeThenNewC | Event::DropAThenNewC => {
                                            if ev == Event::SetModeThenNewC {
                                                s1.set_mode(1);
                                            }
                                            if ev == Event::DropAThenNewC {
                                                a = None;
                                            }
                                            let mut c = s1.find_iter(i2);
                                            for o in &sc_script {
                                                oc.push(apply(&mut c, *o));
                                            }
                                        }
                                    }
                                }
                                if step == il.len() {
                                    break;
                                }
                                if !il[step] {
                                    if let Some(it) = a.as_mut() {
                                        oa.push(apply(it, sa[ia]));
                                    }
                                    ia += 1;
                                } else {
                                    ob.push(apply(&mut b, sb[ib]));
                                    ib += 1;
                                }
                            }
                            (oa, ob, oc)
                        });
                        let describe = || {
                            json!({
                                "configuration": cfg.to_json(), "scanner": variant,
                                "iterator_A": {"input": i1, "script": sa.iter().map(|o| op_name(*o)).collect::<Vec<_>>()},
                                "iterator_B": {"input": i2, "script": sb.iter().map(|o| op_name(*o)).collect::<Vec<_>>()},
                                "interleaving(false=A,true=B)": il, "event": format!("{ev:?} before step {pos}"),
                                "iterator_C (created by NewC)": {"input": i2, "script": ["next()", "next()"]},
                            })
                        };
                        match r {
                            Err(p) => acc.viol.add("", || Violation { key: String::new(), summary: format!("interleaved run panicked: {p}"), replay: describe() }),
                            Ok((oa, ob, oc)) => {
                                let a_ok = oa.as_slice() == &want_a[..oa.len()] && (ev == Event::DropA || ev == Event::DropAThenNewC || oa.len() == want_a.len());
                                let b_ok = &ob == want_b;
                                let c_ok = !matches!(ev, Event::NewC | Event::SetModeThenNewC | Event::DropAThenNewC) || want_c.map(|w| &oc == w).unwrap_or(true);
                                if !(a_ok && b_ok && c_ok) {
                                    acc.viol.add("", || {
                                        let mut d = describe();
                                        d["observed"] = json!({"A": oa, "B": ob, "C": oc});
                                        d["alone"] = json!({"A": want_a, "B": want_b, "C": want_c});
                                        Violation { key: String::new(), summary: format!("{variant}: scripts A={:?} on {i1:?}, B={:?} on {i2:?}, event {ev:?}@{pos}: an iterator observed something different from the same script run alone", sa, sb), replay: d }
                                    });
                                }
                                if sa.len() + sb.len() >= 2 && sa.iter().chain(sb.iter()).any(|o| *o == Op::Next) {
                                    acc.nontrivial += 1;
                                }
                                if acc.outcomes.len() < 50_000 {
                                    acc.outcomes.insert(h(&format!("{oa:?}{ob:?}{oc:?}")));
                                }
                            }
                        }
                    }
                }
                if acc.samples.items.is_empty() && sa.len() == max_len && sb.len() == max_len {
                    acc.samples.push(|| json!({"A": sa.iter().map(|o| op_name(*o)).collect::<Vec<_>>(), "B": sb.iter().map(|o| op_name(*o)).collect::<Vec<_>>(), "inputs": [i1, i2], "scanner": variant}));
                }
            });
            for a in accs {
                total.runs += a.runs;
                total.nontrivial += a.nontrivial;
                total.viol.merge(a.viol);
                total.samples.merge(a.samples);
                total.outcomes.extend(a.outcomes);
            }
        }
        fams.push(json!({"configuration": cfg.show(), "inputs": [i1, i2], "scripts_per_iterator": all_scripts.len(), "script_pairs": pairs.len(), "variants": 2}));
    }

    // "unaffected by peeks": on ONE iterator, the observations of the non-peek operations of a script
    // equal those of the same script with its peeks removed (differential, no expected values)
    {
        #[derive(Clone, Copy, PartialEq, Debug)]
        enum P {
            Next,
            Peek(usize),
            SetMode(usize),
            SetOffset(usize),
        }
        let alpha_all = [P::Next, P::Peek(1), P::Peek(2), P::Peek(100), P::SetMode(0), P::SetMode(1), P::SetOffset(0), P::SetOffset(1)];
        let depth = if tier == Tier::Quick { 4 } else { 5 };
        let run_script = |sc: &Scanner, input: &str, s: &[P]| -> Result<Vec<String>, String> {
            catch(|| {
                let mut it = sc.find_iter(input);
                let mut obs = vec![];
                for o in s {
                    match o {
                        P::Next => {
                            // the token, the mode after it and where the iterator says the token lies
                            let m = it.next();
                            let pos = m.as_ref().map(|m| (it.position(m.start()), it.position(m.end())));
                            obs.push(format!("{:?}|m{}|{:?}", m.map(|m| bridge::tok(&m)), it.current_mode(), pos));
                        }
                        P::Peek(n) => {
                            let _ = it.peek_n(*n);
                        }
                        P::SetMode(m) => {
                            it.set_mode(*m);
                            obs.push(format!("m{}", it.current_mode()));
                        }
                        P::SetOffset(o) => {
                            it.set_offset(*o);
                            obs.push(format!("m{}", it.current_mode()));
                        }
                    }
                }
                // drain
                for _ in 0..input.len() + 1 {
                    let m = it.next();
                    let pos = m.as_ref().map(|m| (it.position(m.start()), it.position(m.end())));
                    obs.push(format!("{:?}|{:?}", m.map(|m| bridge::tok(&m)), pos));
                }
                obs
            })
        };
        let mut n_scripts = 0usize;
        for (ci, cfg) in cfgs().into_iter().enumerate() {
            let sc = cfg.build_uncached().unwrap();
            // set_mode only to modes the configuration has
            let alpha: Vec<P> = alpha_all.iter().copied().filter(|o| !matches!(o, P::SetMode(m) if *m >= cfg.modes.len())).collect();
            for input in [inputs[ci].0, inputs[ci].1] {
                let total_n: usize = (0..=depth).map(|l| alpha.len().pow(l as u32)).sum();
                let accs = par_for(total_n, 256, Acc::default, |acc, mut k| {
                    // decode k into a script (length-prefixed enumeration)
                    let mut len = 0;
                    while k >= alpha.len().pow(len as u32) {
                        k -= alpha.len().pow(len as u32);
                        len += 1;
                    }
                    let mut s = vec![];
                    for _ in 0..len {
                        s.push(alpha[k % alpha.len()]);
                        k /= alpha.len();
                    }
                    if !s.iter().any(|o| matches!(o, P::Peek(_))) {
                        return;
                    }
                    acc.runs += 1;
                    let stripped: Vec<P> = s.iter().copied().filter(|o| !matches!(o, P::Peek(_))).collect();
                    let (a, b) = (run_script(&sc, input, &s), run_script(&sc, input, &stripped));
                    if a != b {
                        acc.viol.add("", || Violation {
                            key: String::new(),
                            summary: format!("{} on {input:?}: script {s:?} observes {a:?}, the same script without its peeks observes {b:?}", cfg.show()),
                            replay: json!({"configuration": cfg.to_json(), "input": input, "script": format!("{s:?}"), "then": "next() until the end", "with_peeks": format!("{a:?}"), "without_peeks": format!("{b:?}")}),
                        });
                    }
                    acc.nontrivial += 1;
                });
                for a in accs {
                    n_scripts += a.runs;
                    total.runs += a.runs;
                    total.nontrivial += a.nontrivial;
                    total.viol.merge(a.viol);
                }
            }
        }
        fams.push(json!({"family": format!("peek transparency on one iterator: every script of <= {depth} operations from next / peek_n(1) / peek_n(2) / peek_n(100) / set_mode(0|1) / set_offset(0|1) that contains a peek, compared with the same script without its peeks; observed: tokens, modes and position() of both ends of every token"), "scripts_with_peeks": n_scripts, "exhaustive": true}));
    }

    // reuse of one scanner for many inputs, with partially consumed iterators in between
    {
        let cfg = &cfgs()[0];
        let sc = cfg.build_uncached().unwrap();
        let ins = refsem::families::inputs(&['a', 'b', 'x'], 4);
        let mut acc = Acc::default();
        for (k, inp) in ins.iter().enumerate() {
            acc.runs += 1;
            let want = bridge::scan_all(&cfg.build_uncached().unwrap(), inp);
            // partial iterator on the previous input, peek on another
            let prev = &ins[(k + ins.len() - 1) % ins.len()];
            let mut partial = sc.find_iter(prev);
            let _ = partial.next();
            let _ = partial.peek_n(2);
            let got = bridge::scan_all(&sc, inp);
            if got != want {
                acc.viol.add("", || Violation { key: String::new(), summary: format!("reused scanner yields {got:?} on {inp:?}, a fresh one {want:?}"), replay: json!({"configuration": cfg.to_json(), "inputs_scanned_before": k, "input": inp, "got": format!("{got:?}"), "fresh": format!("{want:?}")}) });
            }
        }
        total.runs += acc.runs;
        total.viol.merge(acc.viol);
        fams.push(json!({"family": "one scanner reused for every input of {a,b,x}^<=4 with a partially consumed iterator and a peek in between", "inputs": ins.len()}));
    }

    // history independence against the reference: a fresh scanner scans x1, then x2 (and x2 again
    // through a scanner from the cache that another scanner of the same configuration shares); the
    // tokens of every scan must be the reference's, whatever was scanned first. Wide classes and
    // the characters at the borders of the scalar range: anything remembered per class or per
    // character between scans shows here.
    {
        let wide = vec![
            Cfg::single(vec![CPat::new("[^a]", 0), CPat::new("a+", 1)]),
            Cfg::single(vec![CPat::new("\\x00+", 0), CPat::new(".", 1)]),
            Cfg::single(vec![CPat::new("[\\x00-\\x7f]+", 0), CPat::new("[^\\x00-\\x7f]", 1)]),
            Cfg::single(vec![CPat::new("a", 0).with_la(false, "\\x00"), CPat::new("[\\x00é]", 1), CPat::new("a", 2)]),
            Cfg { modes: vec![CMode { name: "A".into(), pats: vec![CPat::new("a", 0), CPat::new("[^aé]", 1)], transitions: vec![(1, 1)] }, CMode { name: "B".into(), pats: vec![CPat::new("[^é]+", 2), CPat::new("é", 1)], transitions: vec![(1, 0)] }] },
        ];
        // characters that coincide with a pattern character once truncated to 7, 8 or 16 bits
        // (a / á / š / U+10061; - / U+4E2D / U+1002D): a table indexed by a truncated character
        // and filled by whatever is scanned first shows when the alias comes before the original
        let alias = vec![
            Cfg::single(vec![CPat::new("a", 0)]),
            Cfg::single(vec![CPat::new("a+", 0), CPat::new("š", 1)]),
            Cfg::single(vec![CPat::new("-", 0), CPat::new("[0-9a]+", 1)]),
            Cfg::single(vec![CPat::new("[\\u{10061}\\u{4e2d}]", 0), CPat::new("a-", 1)]),
        ];
        let l = if tier == Tier::Quick { 3 } else { 4 };
        let groups: Vec<(&Vec<Cfg>, Vec<String>)> = vec![(&wide, refsem::families::inputs(&['\0', 'a', 'é', '\u{10ffff}'], l)), (&alias, refsem::families::inputs(&['a', 'á', 'š', '\u{10061}', '-', '\u{4e2d}', '\u{1002d}'], l.min(3)))];
        let tables = refsem::sem::AtomTables::default();
        let mut scans = 0usize;
        let mut n_inputs = 0usize;
        for (cfg, ins) in groups.iter().flat_map(|(cfgs, ins)| cfgs.iter().map(move |c| (c, ins))) {
            n_inputs += ins.len();
            let spec = cfg.to_spec().expect("family configurations are in the modelled fragment");
            let tabs: Vec<ScanTable> = ins.iter().map(|i| ScanTable::new(&spec, i, &tables)).collect();
            let n = ins.len();
            let accs = par_for(n, 1, || Acc::default(), |acc, i1| {
                for i2 in 0..n {
                    let Ok(sc) = cfg.build_uncached() else { return };
                    let cached = if i2 % 7 == 0 { cfg.build_cached().ok() } else { None };
                    let mut stats = crate::e2::ScanStats::default();
                    for (which, k) in [("first", i1), ("second", i2)] {
                        acc.runs += 1;
                        if let Some(d) = crate::e2::lockstep(&sc, &spec, &tabs[k], &ins[k], None, 0, 1, &mut stats) {
                            acc.viol.add("", || Violation { key: String::new(), summary: format!("{} : the {which} scan of one scanner (inputs {:?} then {:?}) disagrees with the reference on {:?}: {}", cfg.show(), ins[i1], ins[i2], ins[k], d.detail), replay: json!({"configuration": cfg.to_json(), "calls": ["build_uncached()", format!("find_iter({:?}) to exhaustion", ins[i1]), format!("find_iter({:?}) to exhaustion", ins[i2])], "input": ins[k], "disagreement": d.detail}) });
                            return;
                        }
                    }
                    if let Some(c) = cached {
                        acc.runs += 1;
                        if let Some(d) = crate::e2::lockstep(&c, &spec, &tabs[i2], &ins[i2], None, 0, 1, &mut stats) {
                            acc.viol.add("", || Violation { key: String::new(), summary: format!("{} : a scanner from build() disagrees with the reference on {:?} after other scanners of the configuration scanned other inputs: {}", cfg.show(), ins[i2], d.detail), replay: json!({"configuration": cfg.to_json(), "calls": ["build() in a process where the configuration was built and used before", format!("find_iter({:?}) to exhaustion", ins[i2])], "input": ins[i2], "disagreement": d.detail}) });
                            return;
                        }
                    }
                    acc.nontrivial += 1;
                }
            });
            for a in accs {
                scans += a.runs;
                total.runs += a.runs;
                total.nontrivial += a.nontrivial;
                total.viol.merge(a.viol);
            }
        }
        fams.push(json!({"family": "history independence against the reference: fresh scanner, scan x1 then x2 for ALL ordered pairs of inputs over {U+0000, a, é, U+10FFFF}^<=3 (thorough 4) on wide classes and over {a, á, š, U+10061, -, U+4E2D, U+1002D}^<=3 (characters equal after truncation to 7, 8 or 16 bits) on literal patterns, every scan compared in lockstep with the reference; every 7th pair also through build()", "configurations": wide.len() + alias.len(), "inputs_summed_over_configurations": n_inputs, "scans_compared": scans, "exhaustive": true}));
    }

    // sizes around 2^8 and 2^16 steps: a token, n repetitions, the first token again, scanned alone,
    // with another iterator of the same scanner advanced in between, and with a peek in between.
    // Anything counted per step and shared between iterators (or wrapped at 8/16 bits) shows at one
    // of these sizes.
    {
        let cfg = Cfg::single(vec![CPat::new("xx", 0), CPat::new("y+", 1), CPat::new("z", 2)]);
        let sc = cfg.build_uncached().unwrap();
        let sizes: Vec<usize> = (245..=262).chain(65_520..=65_546).collect();
        let mut n_runs = 0usize;
        for &n in &sizes {
            for prefix in ["xx", "xxz"] {
                let input = format!("{prefix}{}xx", "y".repeat(n));
                let want: Vec<(usize, usize, usize)> = {
                    let mut v = vec![(0, 0, 2)];
                    let mut o = 2;
                    if prefix.len() == 3 {
                        v.push((2, 2, 3));
                        o = 3;
                    }
                    v.push((1, o, o + n));
                    v.push((0, o + n, o + n + 2));
                    v
                };
                for variant in 0..3 {
                    n_runs += 1;
                    total.runs += 1;
                    let r = catch(|| {
                        let mut it = sc.find_iter(&input);
                        let mut other = sc.find_iter("y");
                        let mut got = vec![];
                        let mut k = 0;
                        while let Some(m) = it.next() {
                            got.push((m.token_type(), m.start(), m.end()));
                            k += 1;
                            if k == 1 {
                                match variant {
                                    1 => {
                                        let _ = other.next();
                                    }
                                    2 => {
                                        let _ = it.peek_n(1);
                                    }
                                    _ => {}
                                }
                            }
                            if k > 8 {
                                break;
                            }
                        }
                        got
                    });
                    let what = ["alone", "another iterator of the scanner advanced once after the first token", "peek_n(1) after the first token"][variant];
                    if r.as_ref().ok() != Some(&want) {
                        total.viol.add("", || Violation { key: String::new(), summary: format!("{} on {prefix:?} + {n} x 'y' + \"xx\" ({what}): tokens {:?}, expected {want:?}", cfg.show(), r.as_ref().map(|v| v.iter().take(6).collect::<Vec<_>>())), replay: json!({"configuration": cfg.to_json(), "input": format!("{prefix:?} followed by {n} times 'y' followed by \"xx\""), "calls": ["find_iter(input)", "next()", what, "next() until None"], "expected": format!("{want:?}")}) });
                    }
                }
            }
        }
        fams.push(json!({"family": "size sweep: `xx`/`xxz` + n x y + `xx` for n in 245..262 and 65 520..65 546, scanned alone, with another iterator advanced once after the first token, with a peek after the first token", "runs": n_runs, "exhaustive": true}));
    }

    let n_dis = total.viol.total();
    std::mem::take(&mut total.viol).flush(&mut run);
    let mut cov = Map::new();
    // one run = one schedule (interleaving + event placement) of a script pair = one explored state sequence
    cov.insert("states".into(), json!(total.runs));
    cov.insert("transitions".into(), json!(total.runs));
    cov.insert("traces_validated_against_impl".into(), json!(total.runs));
    cov.insert("samples".into(), json!(total.samples.items));
    cov.insert("evaluations".into(), json!(total.runs));
    cov.insert("distinct_nontrivial".into(), json!(total.nontrivial));
    cov.insert("rule".into(), json!("one evaluation = one complete schedule: a pair of per-iterator scripts (all sequences of <= L ops from next/peek_n(2)/set_mode(1)/set_offset(1)), one interleaving of the two, one scanner-level event (none / Scanner::set_mode(1) / drop A / create and run a third iterator / set_mode(1) then a third iterator / drop A then a third iterator) at one position; every schedule is enumerated once and executed on the real objects; non-trivial = at least two iterator operations of which at least one is next()"));
    cov.insert("exhaustive".into(), json!(true));
    cov.insert("max_script_length".into(), json!(max_len));
    cov.insert("distinct_observation_signatures".into(), json!(total.outcomes.len()));
    cov.insert("families".into(), json!(fams));
    cov.insert("disagreeing_schedules".into(), json!(n_dis));
    run.finish(
        "model_checking",
        cov,
        &["the oracle is differential: the same script executed alone on a fresh uncached scanner (so defects of the scan semantics cannot disturb this check)", "iterators are interleaved on one thread; concurrent use is C14's business"],
    )
}
