//! C04 (lookahead gates and is not consumed), C05 (trailing-context choice) and C07 (well-formed
//! streams, progress, no panic): E2 lockstep over modes mixing patterns with positive, negative and
//! no lookahead, from every start offset.

use crate::e2::{lockstep, prepare, replay_json, safety_scan, Disagreement, Kind, ScanStats};
use bridge::{CPat, Cfg};
use refsem::evidence::{Run, Samples, Tier, ViolAcc, Violation};
use refsem::families::inputs;
use refsem::model::ScanTable;
use refsem::par::par_for;
use refsem::sem::AtomTables;
use serde_json::{json, Map, Value};

pub const S8_KEY: &str = "shared-token-type-lookahead";

/// Does this property report this disagreement?
fn reports(prop: &str, d: &Disagreement) -> bool {
    match prop {
        "C04" => matches!(d.kind, Kind::NotACandidate | Kind::MissingToken),
        "C05" => matches!(d.kind, Kind::WrongChoice | Kind::Panic) || (d.kind == Kind::NotACandidate && d.n_candidates >= 2),
        "C07" => matches!(d.kind, Kind::Panic | Kind::Invariant),
        _ => false,
    }
}

fn la_options(las: &[&str]) -> Vec<Option<(bool, String)>> {
    let mut v = vec![None];
    for l in las {
        v.push(Some((true, l.to_string())));
        v.push(Some((false, l.to_string())));
    }
    v
}

fn pats_with_la(mains: &[&str], las: &[&str]) -> Vec<(String, Option<(bool, String)>)> {
    let mut v = vec![];
    for m in mains {
        for l in la_options(las) {
            v.push((m.to_string(), l));
        }
    }
    v
}

fn mk(p: &(String, Option<(bool, String)>), tt: usize) -> CPat {
    CPat { pat: p.0.clone(), tt, la: p.1.clone() }
}

/// All modes of 1..=max_pats patterns with at least one lookahead, all priority orders (ordered
/// tuples), token types ascending and (as a second variant of every mode) descending with gaps.
pub struct LaFamily {
    pub ps: Vec<(String, Option<(bool, String)>)>,
    pub max_pats: usize,
}

impl LaFamily {
    pub fn len(&self) -> usize {
        2 * (1..=self.max_pats).map(|k| self.ps.len().pow(k as u32)).sum::<usize>()
    }
    pub fn get(&self, i: usize) -> Option<Cfg> {
        // every mode twice: token types ascending (0, 1, ..) and descending with gaps (.., 7, 3)
        let descending = i % 2 == 1;
        let mut i = i / 2;
        let n = self.ps.len();
        let mut k = 1;
        while i >= n.pow(k as u32) {
            i -= n.pow(k as u32);
            k += 1;
        }
        let mut idx = vec![];
        for _ in 0..k {
            idx.push(i % n);
            i /= n;
        }
        idx.reverse();
        if idx.iter().all(|&j| self.ps[j].1.is_none()) {
            return None; // lookahead-free modes are C01's
        }
        if descending && idx.len() == 1 {
            return None; // a single pattern has no order of token types
        }
        let k = idx.len();
        Some(Cfg::single(idx.iter().enumerate().map(|(t, &j)| mk(&self.ps[j], if descending { 3 + 4 * (k - 1 - t) } else { t })).collect()))
    }
}

#[derive(Default)]
struct Acc {
    long: Vec<serde_json::Value>,
    cfgs: usize,
    scans: usize,
    nontrivial: usize,
    build_errors: usize,
    stats: ScanStats,
    viol: ViolAcc,
    n_other: usize,
    other_kinds: std::collections::BTreeMap<String, usize>,
    samples: Samples,
    offsets_nonzero: usize,
    safety_tokens: usize,
}

fn merge(a: &mut Acc, b: Acc) {
    a.long.extend(b.long);
    a.cfgs += b.cfgs;
    a.scans += b.scans;
    a.nontrivial += b.nontrivial;
    a.build_errors += b.build_errors;
    a.stats.tokens += b.stats.tokens;
    a.stats.competed += b.stats.competed;
    a.stats.multi_candidates += b.stats.multi_candidates;
    a.stats.skipped += b.stats.skipped;
    a.n_other += b.n_other;
    for (k, v) in b.other_kinds {
        *a.other_kinds.entry(k).or_default() += v;
    }
    a.viol.merge(b.viol);
    a.samples.merge(b.samples);
    a.offsets_nonzero += b.offsets_nonzero;
    a.safety_tokens += b.safety_tokens;
}

fn shares_token_type_with_different_lookahead(cfg: &Cfg) -> bool {
    cfg.modes.iter().any(|m| m.pats.iter().enumerate().any(|(i, p)| m.pats.iter().skip(i + 1).any(|q| q.tt == p.tt && q.la != p.la && (q.la.is_some() || p.la.is_some()))))
}

#[allow(clippy::too_many_arguments)]
fn run_cfg(acc: &mut Acc, prop: &str, cfg: &Cfg, ins: &[String], tables: &AtomTables, family: &str, offsets: bool, key: &str) {
    acc.cfgs += 1;
    let (spec, sc) = match prepare(cfg) {
        Ok(x) => x,
        Err(e) => {
            acc.build_errors += 1;
            acc.samples.push(|| json!({"family": family, "cfg": cfg.show(), "build": e}));
            return;
        }
    };
    let mut clean = true;
    'inputs: for input in ins {
        let table = ScanTable::new(&spec, input, tables);
        let mut starts: Vec<Option<usize>> = vec![None];
        if offsets {
            for ci in 1..=table.n_chars() {
                starts.push(Some(table.byte_of[ci]));
            }
            starts.push(Some(input.len() + 1));
        }
        for start in starts {
            acc.scans += 1;
            if start.is_some() {
                acc.offsets_nonzero += 1;
            }
            let mut st = ScanStats::default();
            let d = lockstep(&sc, &spec, &table, input, start, 0, 2, &mut st);
            if st.tokens > 0 && st.multi_candidates > 0 {
                acc.nontrivial += 1;
            }
            acc.stats.tokens += st.tokens;
            acc.stats.competed += st.competed;
            acc.stats.multi_candidates += st.multi_candidates;
            acc.stats.skipped += st.skipped;
            if let Some(d) = d {
                if reports(prop, &d) {
                    acc.viol.add(key, || Violation { key: key.to_string(), summary: format!("{} on {:?} from {:?}: {}", cfg.show(), input, start, d.detail), replay: replay_json(cfg, input, start, 0, &d) });
                } else {
                    acc.n_other += 1;
                    *acc.other_kinds.entry(format!("{:?}", d.kind)).or_default() += 1;
                }
                clean = false;
                break 'inputs; // simplest witness per configuration
            }
        }
    }
    if clean && offsets && key.is_empty() {
        history_differentials(acc, prop, cfg, &sc, ins, key);
    }
    if acc.samples.items.len() < 2 {
        acc.samples.push(|| json!({"family": family, "cfg": cfg.show(), "inputs": ins.len(), "start_offsets": offsets}));
    }
}

/// History differentials on ONE iterator (no expected values: the streams of fresh iterators are
/// what the lockstep above compared with the reference): (a) after the iterator is exhausted,
/// set_offset(0) and a second pass give the first pass again; (b) for every boundary k, one next()
/// followed by set_offset(k) gives what a fresh iterator with_offset(k) gives; (c) the same with a
/// peek_n to the end instead of the next().
fn history_differentials(acc: &mut Acc, prop: &str, cfg: &Cfg, sc: &scnr::Scanner, ins: &[String], key: &str) {
    if prop == "C07" {
        return;
    }
    let drain = |it: &mut scnr::FindMatches, input: &str| -> Vec<(usize, usize, usize)> {
        let mut v = vec![];
        for _ in 0..input.len() + 1 {
            match it.next() {
                Some(m) => v.push((m.token_type(), m.start(), m.end())),
                None => break,
            }
        }
        v
    };
    for input in ins {
        let r = bridge::catch(|| -> Option<(String, Vec<String>)> {
            let mut it = sc.find_iter(input);
            let first = drain(&mut it, input);
            it.set_offset(0);
            let second = drain(&mut it, input);
            if first != second {
                return Some((format!("a second pass after exhaustion and set_offset(0) yields {second:?}, the first pass {first:?}"), vec!["next() until None".into(), "set_offset(0)".into(), "next() until None".into()]));
            }
            let bounds: Vec<usize> = input.char_indices().map(|(i, _)| i).skip(1).chain(std::iter::once(input.len())).collect();
            for &k in &bounds {
                let fresh = drain(&mut sc.find_iter(input).with_offset(k), input);
                let mut it = sc.find_iter(input);
                let _ = it.next();
                it.set_offset(k);
                let got = drain(&mut it, input);
                if got != fresh {
                    return Some((format!("after one next() and set_offset({k}) the iterator yields {got:?}, a fresh iterator with_offset({k}) yields {fresh:?}"), vec!["next()".into(), format!("set_offset({k})"), "next() until None".into()]));
                }
                let mut it = sc.find_iter(input);
                let _ = it.peek_n(input.len() + 1);
                it.set_offset(k);
                let got = drain(&mut it, input);
                if got != fresh {
                    return Some((format!("after peek_n({}) and set_offset({k}) the iterator yields {got:?}, a fresh iterator with_offset({k}) yields {fresh:?}", input.len() + 1), vec![format!("peek_n({})", input.len() + 1), format!("set_offset({k})"), "next() until None".into()]));
                }
            }
            None
        });
        acc.scans += 1;
        let problem = match r {
            Ok(None) => continue,
            Ok(Some(p)) => p,
            Err(p) => (format!("panicked: {p}"), vec![]),
        };
        acc.viol.add(key, || Violation { key: key.to_string(), summary: format!("{} on {:?}: {}", cfg.show(), input, problem.0), replay: json!({"configuration": cfg.to_json(), "input": input, "calls": problem.1, "disagreement": problem.0}) });
        break;
    }
}

fn tables_for(keys: &[&str], run: &mut Run) -> AtomTables {
    let mut tables = AtomTables::default();
    let keys: Vec<String> = keys.iter().map(|s| s.to_string()).collect();
    if let Err(e) = bridge::tabulate_atoms(&keys, &mut tables) {
        // `\w` alone cannot be built or cannot be scanned over the string of all scalar values
        // (build error, panic, or a token of more than one character): nothing below can be
        // judged without it, and the failure itself is one of an input the properties quantify over
        run.violation(Violation { key: String::new(), summary: format!("the one-pattern scanner `\\w` fails on the string of all scalar values: {e}"), replay: json!({"pattern": "\\w", "input": "every scalar value once, ascending", "error": e}) });
    }
    tables
}

pub fn run(prop: &'static str, tier: Tier) -> ! {
    let mut run = Run::new(prop, tier);
    let tables = tables_for(&["\\w"], &mut run);
    if run.n_violations() > 0 {
        run.finish("exploration", Map::new(), &[]);
    }
    let mut total = Acc { samples: Samples::new(8), ..Default::default() };
    let mut families: Vec<Value> = vec![];

    // Family A: ASCII mains x lookaheads, 1..2 (thorough: 3 with a smaller menu) patterns
    let mains = ["a", "b", "ab", "(a)+", "[ab]", "(a)*", "abx", "(ab)?a", "."];
    let las = ["a", "b", "x", "ab", "[ab]", "(b)+", "bx", "bx?", "(a){1,2}"];
    let l = if tier == Tier::Quick { 4 } else { 5 };
    let fam_a = LaFamily { ps: pats_with_la(&mains, &las), max_pats: 2 };
    let ins_a = inputs(&['a', 'b', 'x'], l);
    let n = fam_a.len();
    let accs = par_for(n, 16, || Acc { samples: Samples::new(1), ..Default::default() }, |acc, i| {
        if let Some(cfg) = fam_a.get(i) {
            run_cfg(acc, prop, &cfg, &ins_a, &tables, "A", true, "");
        }
    });
    for a in accs {
        merge(&mut total, a);
    }
    families.push(json!({"family": "A: all ordered modes of 1..2 patterns from 9 mains x {no, positive, negative lookahead from 9 non-nullable patterns incl. optional tails and bounded repetitions} with at least one lookahead", "index_space": n, "inputs": format!("{{a,b,x}}^<={l}"), "start_offsets": "none, every character boundary, |x|+1", "exhaustive": true}));

    // Family B: multi-byte characters in front of and inside lookaheads
    let mains_b = ["é", "a", "[aé]+", "aé", "(é)+", "€"];
    let las_b = ["é", "b", "éb", "a", "€"];
    let fam_b = LaFamily { ps: pats_with_la(&mains_b, &las_b), max_pats: 2 };
    let ins_b = inputs(&['a', 'é', 'b', '€'], if tier == Tier::Quick { 3 } else { 4 });
    let n = fam_b.len();
    let accs = par_for(n, 16, || Acc { samples: Samples::new(1), ..Default::default() }, |acc, i| {
        if let Some(cfg) = fam_b.get(i) {
            run_cfg(acc, prop, &cfg, &ins_b, &tables, "B", true, "");
        }
    });
    for a in accs {
        merge(&mut total, a);
    }
    families.push(json!({"family": "B: multi-byte mains/lookaheads (é, €), ordered modes of 1..2 patterns", "index_space": n, "inputs": "{a,é,b,€}^<=3 (thorough 4)", "start_offsets": "all", "exhaustive": true}));

    // Family E: lookaheads whose automata are not deterministic after the Thompson/closure
    // construction (two transitions on one character from one state), whose first item may match
    // nothing, and whose alternatives have different lengths (a shorter token can then have the
    // larger extent)
    {
        let mains_e = ["a", "(a)+", "x", "[ab]"];
        let las_e = ["ab|ax", "(a)*ab", "(a|ab)b", "(a){0,2}b", "(a){0}b", "(a){0,}x", "(a)?b", "abb|b", "b|bxx", "[ab]*x", "(a|b)*bb", "x|xa|xab"];
        let fam_e = LaFamily { ps: pats_with_la(&mains_e, &las_e), max_pats: 2 };
        let le = if tier == Tier::Quick { 4 } else { 5 };
        let ins_e = inputs(&['a', 'b', 'x'], le);
        let n = fam_e.len();
        let accs = par_for(n, 16, || Acc { samples: Samples::new(1), ..Default::default() }, |acc, i| {
            if let Some(cfg) = fam_e.get(i) {
                run_cfg(acc, prop, &cfg, &ins_e, &tables, "E", true, "");
            }
        });
        for a in accs {
            merge(&mut total, a);
        }
        families.push(json!({"family": "E: ordered modes of 1..2 patterns from 4 mains x {no, positive, negative lookahead from 12 lookaheads with overlapping alternatives, leading repetitions with lower bound 0, alternatives of different lengths}", "index_space": n, "inputs": format!("{{a,b,x}}^<={le}"), "start_offsets": "all", "exhaustive": true}));
    }

    // Family C (thorough): three patterns from a smaller menu
    if tier == Tier::Thorough {
        let mains_c = ["a", "ab", "(a)+", "[ab]", "b"];
        let las_c = ["a", "b", "(b)+", "bx"];
        let fam_c = LaFamily { ps: pats_with_la(&mains_c, &las_c), max_pats: 3 };
        let ins_c = inputs(&['a', 'b', 'x'], 5);
        let n = fam_c.len();
        let accs = par_for(n, 16, || Acc { samples: Samples::new(1), ..Default::default() }, |acc, i| {
            if let Some(cfg) = fam_c.get(i) {
                if cfg.modes[0].pats.len() == 3 {
                    run_cfg(acc, prop, &cfg, &ins_c, &tables, "C", true, "");
                }
            }
        });
        for a in accs {
            merge(&mut total, a);
        }
        families.push(json!({"family": "C: all ordered modes of exactly 3 patterns from 5 mains x 4 lookaheads", "index_space": n, "inputs": "{a,b,x}^<=5", "start_offsets": "all", "exhaustive": true}));
    }
    {
        // lookaheads from G(3), non-nullable, attached to two mains
        let g3: Vec<String> = refsem::families::g_upto(3).into_iter().filter(|p| refsem::sem::Regex::parse(p).map(|r| !r.nullable()).unwrap_or(false)).collect();
        let mut cfgs = vec![];
        for la in &g3 {
            for pos in [true, false] {
                cfgs.push(Cfg::single(vec![CPat::new("(a)+", 0).with_la(pos, la), CPat::new("[ab]", 1), CPat::new("ab", 2).with_la(!pos, la)]));
            }
        }
        let ins_d = inputs(&['a', 'b', 'x'], if tier == Tier::Quick { 4 } else { 5 });
        let accs = par_for(cfgs.len(), 4, || Acc { samples: Samples::new(1), ..Default::default() }, |acc, i| {
            run_cfg(acc, prop, &cfgs[i], &ins_d, &tables, "D", true, "");
        });
        for a in accs {
            merge(&mut total, a);
        }
        families.push(json!({"family": "D: every non-nullable pattern of G(3) as positive/negative lookahead of two of three patterns", "configurations": cfgs.len(), "inputs": "{a,b,x}^<=4 (thorough 5)", "exhaustive": true}));
    }

    // Family S8: two patterns of one mode share a token type and differ in their lookahead. Counted
    // on its own; disagreements here carry the known-finding key.
    {
        let ps = pats_with_la(&["a", "ab", "b"], &["a", "b", "x"]);
        let mut cfgs = vec![];
        for p in &ps {
            for q in &ps {
                let cfg = Cfg::single(vec![mk(p, 0), mk(q, 0), CPat::new("x", 1)]);
                if shares_token_type_with_different_lookahead(&cfg) {
                    cfgs.push(cfg);
                }
            }
        }
        let ins_s = inputs(&['a', 'b', 'x'], 3);
        let accs = par_for(cfgs.len(), 4, || Acc { samples: Samples::new(1), ..Default::default() }, |acc, i| {
            run_cfg(acc, prop, &cfgs[i], &ins_s, &tables, "S8", false, S8_KEY);
        });
        for a in accs {
            merge(&mut total, a);
        }
        families.push(json!({"family": "S8: two patterns of one mode share a token type and differ in their lookahead", "configurations": cfgs.len(), "inputs": "{a,b,x}^<=3", "exhaustive": true}));
    }

    // long inputs with lookaheads: the lookahead fixtures and veryl on their input files, synthetic
    if prop != "C07" {
        let cases = crate::longscan::long_cases(true);
        let mut t2 = tables.clone();
        let mut keys = vec![];
        for c in &cases {
            keys.extend(c.1.atom_keys());
        }
        keys.sort();
        keys.dedup();
        if let Err(e) = bridge::tabulate_atoms(&keys, &mut t2) {
            refsem::evidence::machinery(&format!("cannot tabulate atoms of the corpora: {e}"));
        }
        let accs = par_for(cases.len(), 1, || Acc { samples: Samples::new(1), ..Default::default() }, |acc, i| {
            let (name, cfg, input) = &cases[i];
            acc.cfgs += 1;
            acc.scans += 1;
            let Ok(lr) = crate::longscan::LongRef::new(cfg) else { return };
            let toks = match bridge::catch(|| cfg.build_uncached().map(|sc| bridge::scan_all(&sc, input))) {
                Ok(Ok(Ok(t))) => t,
                _ => {
                    if prop == "C05" {
                        acc.viol.add("", || Violation { key: String::new(), summary: format!("{name}: build or scan failed or panicked"), replay: json!({"case": name, "configuration": cfg.to_json(), "input_bytes": input.len()}) });
                    }
                    return;
                }
            };
            let (n, competed, d) = lr.compare_stream(input, &toks, &t2);
            acc.stats.tokens += n;
            acc.stats.competed += competed;
            if let Some(d) = d {
                // a wrong stream on a lookahead configuration is reported by both C04 and C05
                acc.viol.add("", || Violation { key: String::new(), summary: format!("{name}: {d}"), replay: json!({"case": name, "configuration": cfg.to_json(), "input_bytes": input.len(), "input_prefix": input.chars().take(60).collect::<String>(), "disagreement": d}) });
            }
            acc.long.push(json!({"case": name, "input_bytes": input.len(), "tokens_compared": n, "positions_with_competing_patterns": competed}));
        });
        for a in accs {
            merge(&mut total, a);
        }
        families.push(json!({"family": "long inputs: lookahead fixtures and veryl (3 modes, 218 patterns) on their input files, synthetic inputs with lookaheads beyond offset 65 535", "cases": cases.iter().map(|c| c.0.clone()).collect::<Vec<_>>()}));
    }

    // C07's own family: nullable patterns, nullable lookaheads, zero-pattern modes, 1-4 byte
    // characters; safety only.
    if prop == "C07" {
        let nullable = ["a*", "(|a)", "a?", "()", "", "a{0}", "(a*)*", "(a|)+", "(a?){2}", "[ab]*", ".*", "(é|€)*", "😀?"];
        let others = ["a", "é+", ".", "[^a]", "€😀", "\\w+"];
        let nla = ["a*", "()", "", "(|b)", "b?", "é*"];
        let mut cfgs: Vec<Cfg> = vec![];
        cfgs.push(Cfg::single(vec![]));
        cfgs.push(Cfg { modes: vec![bridge::CMode { name: "A".into(), pats: vec![], transitions: vec![] }, bridge::CMode { name: "B".into(), pats: vec![CPat::new("a", 0)], transitions: vec![] }] });
        for p in &nullable {
            cfgs.push(Cfg::single(vec![CPat::new(p, 0)]));
            for q in &others {
                cfgs.push(Cfg::single(vec![CPat::new(p, 0), CPat::new(q, 1)]));
                cfgs.push(Cfg::single(vec![CPat::new(q, 0), CPat::new(p, 1)]));
            }
            for q in &nullable {
                cfgs.push(Cfg::single(vec![CPat::new(p, 0), CPat::new(q, 1)]));
            }
        }
        for p in nullable.iter().chain(others.iter()) {
            for l in &nla {
                for pos in [true, false] {
                    cfgs.push(Cfg::single(vec![CPat::new(p, 0).with_la(pos, l)]));
                    cfgs.push(Cfg::single(vec![CPat::new(p, 0).with_la(pos, l), CPat::new(".", 1)]));
                    cfgs.push(Cfg::single(vec![CPat::new("a", 0), CPat::new(p, 1).with_la(pos, l)]));
                }
            }
        }
        // a transition to the own mode and to another mode, with nullable patterns
        cfgs.push(Cfg {
            modes: vec![
                bridge::CMode { name: "A".into(), pats: vec![CPat::new("a*", 0), CPat::new("é", 1)], transitions: vec![(0, 1), (1, 0)] },
                bridge::CMode { name: "B".into(), pats: vec![CPat::new("(|a)", 0), CPat::new(".", 2)], transitions: vec![(2, 0)] },
            ],
        });
        let ins = inputs(&['a', 'b', '\n', 'é', '€', '😀'], if tier == Tier::Quick { 4 } else { 5 });
        let accs = par_for(cfgs.len(), 1, || Acc { samples: Samples::new(1), ..Default::default() }, |acc, i| {
            let cfg = &cfgs[i];
            acc.cfgs += 1;
            let sc = match bridge::catch(|| cfg.build_uncached()) {
                Ok(Ok(sc)) => sc,
                Ok(Err(_)) => {
                    acc.build_errors += 1;
                    return;
                }
                Err(p) => {
                    acc.viol.add("", || Violation { key: String::new(), summary: format!("building {} panicked: {p}", cfg.show()), replay: json!({"configuration": cfg.to_json(), "calls": ["build_uncached()"], "panic": p}) });
                    return;
                }
            };
            for input in &ins {
                let n_chars = input.chars().count();
                let mut starts = vec![None];
                let mut b = 0;
                for c in input.chars() {
                    b += c.len_utf8();
                    starts.push(Some(b));
                }
                for start in starts {
                    acc.scans += 1;
                    let mut n_tok = 0;
                    if let Some(d) = safety_scan(&sc, input, start, 2 * n_chars + 2, &mut n_tok) {
                        acc.viol.add("", || Violation { key: String::new(), summary: format!("{} on {:?} from {:?}: {}", cfg.show(), input, start, d.detail), replay: replay_json(cfg, input, start, 0, &d) });
                        return;
                    }
                    if n_tok > 0 {
                        acc.nontrivial += 1;
                    }
                    acc.safety_tokens += n_tok;
                }
            }
            if acc.samples.items.len() < 2 {
                acc.samples.push(|| json!({"family": "nullable", "cfg": cfg.show()}));
            }
        });
        let n_cfgs = cfgs.len();
        for a in accs {
            merge(&mut total, a);
        }
        families.push(json!({"family": "nullable patterns / nullable lookaheads / zero-pattern modes, safety invariants only, iterator driven 2|x|+2 more times after the first None", "configurations": n_cfgs, "inputs": "{a,b,\\n,é,€,😀}^<=4 (thorough 5)", "start_offsets": "all", "exhaustive": true}));
    }

    // C07: safety invariants along call histories (stateless enumeration through the public API)
    if prop == "C07" {
        use crate::histpub::{alphabet, safety_cfgs, safety_history, HOp};
        let depth = if tier == Tier::Quick { 3 } else { 4 };
        let cfgs = safety_cfgs();
        let ins = inputs(&['a', 'b', 'é', '\n', '1'], 3);
        let work: Vec<(usize, usize)> = (0..cfgs.len()).flat_map(|c| (0..ins.len()).map(move |i| (c, i))).collect();
        let scanners: Vec<Option<scnr::Scanner>> = cfgs.iter().map(|c| bridge::catch(|| c.build_uncached()).ok().and_then(|r| r.ok())).collect();
        let accs = par_for(work.len(), 1, || Acc { samples: Samples::new(1), ..Default::default() }, |acc, w| {
            let (ci, ii) = work[w];
            let Some(sc) = &scanners[ci] else { return };
            let input = &ins[ii];
            let alpha = alphabet(input, cfgs[ci].modes.len());
            // all histories of length 0..=depth
            let mut idx = vec![0usize; 0];
            loop {
                let hist: Vec<HOp> = idx.iter().map(|&k| alpha[k]).collect();
                acc.scans += 1;
                let mut n_tok = 0;
                if let Some(d) = safety_history(sc, input, &hist, &mut n_tok) {
                    acc.viol.add("", || Violation {
                        key: String::new(),
                        summary: format!("{} on {:?} after [{}]: {d}", cfgs[ci].show(), input, hist.iter().map(|o| o.show()).collect::<Vec<_>>().join(", ")),
                        replay: json!({"configuration": cfgs[ci].to_json(), "input": input, "history": hist.iter().map(|o| o.show()).collect::<Vec<_>>(), "then": "next() until None", "broken_invariant": d}),
                    });
                    return;
                }
                if n_tok > 0 && hist.iter().any(|o| matches!(o, HOp::SetOffset(_))) {
                    acc.nontrivial += 1;
                }
                acc.safety_tokens += n_tok;
                // next history (shortest first is not needed here: odometer over lengths)
                let mut k = idx.len();
                loop {
                    if k == 0 {
                        idx = vec![0; idx.len() + 1];
                        break;
                    }
                    k -= 1;
                    idx[k] += 1;
                    if idx[k] < alpha.len() {
                        break;
                    }
                    idx[k] = 0;
                }
                if idx.len() > depth {
                    break;
                }
            }
            if acc.samples.items.is_empty() {
                acc.samples.push(|| json!({"family": "history-safety", "cfg": cfgs[ci].show(), "input": input, "ops": alpha.len(), "depth": depth}));
            }
        });
        for a in accs {
            merge(&mut total, a);
        }
        families.push(json!({"family": format!("history safety: every history of <= {depth} operations from next / peek_n(2) / peek_n(usize::MAX) / advance_to(peeked end) / set_offset(every boundary, |x|+1) / set_mode(k), position(0|floor|end) after every operation, then next() until None through WithPositions; invariants per segment since the last reset"), "configurations": cfgs.len(), "inputs": "{a,b,é,\\n,1}^<=3", "exhaustive": true}));
    }

    let n_disagreeing = total.viol.total();
    std::mem::take(&mut total.viol).flush(&mut run);
    let mut cov = Map::new();
    cov.insert("evaluations".into(), json!(total.scans));
    cov.insert("distinct_nontrivial".into(), json!(total.nontrivial));
    cov.insert(
        "rule".into(),
        json!("one evaluation = one (configuration, input, start offset) triple scanned to exhaustion by the real iterator in lockstep with the reference scanner (every triple enumerated exactly once); non-trivial = a token was produced at a position where two or more (pattern, length) candidates with satisfied lookahead existed (for the C07 safety family: at least one token was produced)"),
    );
    cov.insert("samples".into(), json!(total.samples.items));
    cov.insert("exhaustive".into(), json!(true));
    cov.insert("configurations".into(), json!(total.cfgs));
    cov.insert("build_errors".into(), json!(total.build_errors));
    cov.insert("tokens_compared".into(), json!(total.stats.tokens));
    cov.insert("positions_with_two_or_more_candidates".into(), json!(total.stats.multi_candidates));
    cov.insert("positions_with_competing_patterns".into(), json!(total.stats.competed));
    cov.insert("scans_from_nonzero_offset".into(), json!(total.offsets_nonzero));
    cov.insert("long_input_cases".into(), json!(total.long));
    cov.insert("families".into(), json!(families));
    cov.insert("disagreeing_configurations".into(), json!(n_disagreeing));
    cov.insert("disagreements_belonging_to_other_properties".into(), json!(total.other_kinds));
    cov.insert("safety_family_tokens".into(), json!(total.safety_tokens));
    run.finish(
        "exploration",
        cov,
        &["regex-syntax's parser is shared with scnr and trusted", "lookahead patterns are non-nullable outside the C07 safety family (nullable lookaheads are unspecified by C04)", "when one pattern has several lengths of equal extent any of them is accepted (the property does not choose)"],
    )
}
