//! C01: longest match, priority, skip — bounded-exhaustive lockstep of the real iterator against
//! the reference scanner on lookahead-free modes.

use crate::e2::{lockstep, prepare, replay_json, Kind, ScanStats};
use crate::fam::{cfg_of, SetsFamily};
use bridge::Cfg;
use refsem::evidence::{Run, Samples, Tier, ViolAcc, Violation};
use refsem::families::{inputs, token_type_variants};
use refsem::model::ScanTable;
use refsem::par::par_for;
use refsem::sem::AtomTables;
use serde_json::{json, Map};

#[derive(Default)]
struct Acc {
    long: Vec<serde_json::Value>,
    cfgs: usize,
    scans: usize,
    nontrivial: usize,
    build_errors: usize,
    stats: ScanStats,
    cfgs_competed: usize,
    viol: ViolAcc,
    other_kinds: usize,
    samples: Samples,
    outcomes: std::collections::BTreeSet<u64>,
}

fn hash_tokens(h: &mut u64, x: u64) {
    *h = (*h ^ x).wrapping_mul(0x100000001b3);
}

fn run_cfg(acc: &mut Acc, cfg: &Cfg, ins: &[String], tables: &AtomTables, family: &str) {
    acc.cfgs += 1;
    let (spec, sc) = match prepare(cfg) {
        Ok(x) => x,
        Err(e) => {
            acc.build_errors += 1;
            acc.samples.push(|| json!({"family": family, "cfg": cfg.show(), "build": e}));
            return;
        }
    };
    let mut competed_any = false;
    // the repetition-shape and registration-order families are also scanned from every character
    // boundary (find_iter(input).with_offset(o)): the rule is the same from any position
    let with_starts = family == "repetition-shapes" || family == "registration-order";
    for (input, start) in ins.iter().flat_map(|i| {
        let n = if with_starts { i.chars().count() } else { 0 };
        let bounds: Vec<Option<usize>> = std::iter::once(None).chain(i.char_indices().map(|(b, _)| Some(b)).skip(1).take(n)).collect();
        bounds.into_iter().map(move |b| (i, b))
    }) {
        acc.scans += 1;
        let table = ScanTable::new(&spec, input, tables);
        let mut st = ScanStats::default();
        let d = lockstep(&sc, &spec, &table, input, start, 0, 2, &mut st);
        if st.tokens > 0 && (st.competed > 0 || st.skipped > 0) {
            acc.nontrivial += 1;
        }
        competed_any |= st.competed > 0;
        let mut h = 0xcbf29ce484222325u64;
        hash_tokens(&mut h, st.tokens as u64);
        hash_tokens(&mut h, st.competed as u64);
        hash_tokens(&mut h, st.skipped as u64);
        if acc.outcomes.len() < 100_000 {
            acc.outcomes.insert(h);
        }
        acc.stats.tokens += st.tokens;
        acc.stats.competed += st.competed;
        acc.stats.skipped += st.skipped;
        if let Some(d) = d {
            match d.kind {
                Kind::Panic | Kind::Invariant | Kind::Mode => acc.other_kinds += 1,
                _ => {}
            }
            // every disagreement of a lookahead-free single-mode scan is a C01 disagreement
            acc.viol.add("", || Violation { key: String::new(), summary: format!("{} on {:?}{}: {}", cfg.show(), input, start.map(|o| format!(" from offset {o}")).unwrap_or_default(), d.detail), replay: replay_json(cfg, input, start, 0, &d) });
            break; // one witness per configuration is enough; simplest input first
        }
    }
    if competed_any {
        acc.cfgs_competed += 1;
    }
    if acc.samples.items.len() < 3 && competed_any {
        acc.samples.push(|| json!({"family": family, "cfg": cfg.show(), "inputs": ins.len()}));
    }
}

fn merge(a: &mut Acc, b: Acc) {
    a.long.extend(b.long);
    a.cfgs += b.cfgs;
    a.scans += b.scans;
    a.nontrivial += b.nontrivial;
    a.build_errors += b.build_errors;
    a.stats.tokens += b.stats.tokens;
    a.stats.competed += b.stats.competed;
    a.stats.skipped += b.stats.skipped;
    a.cfgs_competed += b.cfgs_competed;
    a.other_kinds += b.other_kinds;
    a.viol.merge(b.viol);
    a.samples.merge(b.samples);
    a.outcomes.extend(b.outcomes);
}

pub fn run(tier: Tier) -> ! {
    let mut run = Run::new("C01", tier);
    let mut tables = AtomTables::default();
    if let Err(e) = bridge::tabulate_atoms(&["\\w".to_string()], &mut tables) {
        run.violation(Violation { key: String::new(), summary: format!("cannot tabulate \\w through the public API: {e}"), replay: json!({"pattern": "\\w", "error": e}) });
        run.finish("exploration", Map::new(), &[]);
    }
    // the patterns of this check use \w as an opaque atom; its table is tied to independent Unicode
    // data here (see C08), so that "matches in full" means matching the documented word class
    if let Some(problem) = tables.tables.get("\\w").and_then(|t| crate::c08::perl_anchor("\\w", t)) {
        run.violation(Violation { key: String::new(), summary: problem.clone(), replay: json!({"pattern": "\\w", "input": "every scalar value", "problem": problem}) });
        run.finish("exploration", Map::new(), &[]);
    }
    let (k1, k2, k3, l) = match tier {
        Tier::Quick => (4, 2, 1, 4),
        Tier::Thorough => (5, 3, 2, 5),
    };
    let fam = SetsFamily::new(k1, k2, k3);
    let ins = inputs(&['a', 'b', 'x', '€'], l);
    let mut total = Acc { samples: Samples::new(8), ..Default::default() };
    let n = fam.len();
    let accs = par_for(
        n,
        64,
        || Acc { samples: Samples::new(2), ..Default::default() },
        |acc, i| {
            let pats = fam.get(i);
            let all = i < fam.g1.len() + 77 * 77;
            for tts in token_type_variants(pats.len(), all && pats.len() > 1) {
                let cfg = cfg_of(&pats, &tts);
                run_cfg(acc, &cfg, &ins, &tables, "Sets");
            }
        },
    );
    for a in accs {
        merge(&mut total, a);
    }
    let mut families = vec![json!({"family": format!("Sets({k1};{k2};{k3}) x token type variants x inputs {{a,b,x,€}}^<={l}"), "pattern_sets": n, "inputs": ins.len(), "exhaustive": true})];

    // repetition shapes and class pairs
    {
        let shapes = refsem::families::repetition_shapes();
        let ins5 = inputs(&['a', 'b', 'x', 'y'], if tier == Tier::Quick { 4 } else { 5 });
        let accs = par_for(shapes.len(), 4, || Acc { samples: Samples::new(1), ..Default::default() }, |acc, i| {
            run_cfg(acc, &Cfg::single(vec![bridge::CPat::new(&shapes[i], 3), bridge::CPat::new("[abxy]", 1)]), &ins5, &tables, "repetition-shapes");
            run_cfg(acc, &Cfg::single(vec![bridge::CPat::new(&shapes[i], 0)]), &ins5, &tables, "repetition-shapes");
        });
        for a in accs {
            merge(&mut total, a);
        }
        families.push(json!({"family": "repetition shapes: (inner)rep for 5 inner patterns x {*,+,?,{m},{m,},{m,n} | 0<=m<=n<=3} x 7 contexts, alone and before [abxy]", "patterns": shapes.len(), "inputs": ins5.len(), "exhaustive": true}));
        let menu = refsem::families::class_menu();
        let mut tables2 = tables.clone();
        let all = Cfg::single(menu.iter().enumerate().map(|(i, c)| bridge::CPat::new(c, i)).collect());
        if let Err(e) = bridge::tabulate_atoms(&all.atom_keys(), &mut tables2) {
            refsem::evidence::machinery(&format!("cannot tabulate atoms of the class menu: {e}"));
        }
        let insc = inputs(&['a', 'b', '1', ' ', '→', '.', 'š', '\u{10061}'], 3);
        let pairs: Vec<(usize, usize)> = (0..menu.len()).flat_map(|x| (0..menu.len()).map(move |y| (x, y))).collect();
        let accs = par_for(pairs.len(), 4, || Acc { samples: Samples::new(1), ..Default::default() }, |acc, i| {
            let (x, y) = (menu[pairs[i].0], menu[pairs[i].1]);
            run_cfg(acc, &Cfg::single(vec![bridge::CPat::new(&format!("({x})+"), 0), bridge::CPat::new(&format!("({y})+"), 1), bridge::CPat::new(&format!("({x})({y})"), 2)]), &insc, &tables2, "class-pairs");
        });
        for a in accs {
            merge(&mut total, a);
        }
        families.push(json!({"family": "class pairs: every ordered pair (X,Y) of a menu of near-identical one-character classes as patterns (X)+, (Y)+, (X)(Y)", "menu": menu, "pairs": pairs.len(), "inputs": insc.len(), "exhaustive": true}));
    }

    // branching family (see C02/C03): the single alternation `P|Q` of every ordered pair of branch
    // patterns, scanned on every string over the letters the pair uses
    {
        let br = refsem::families::branch_patterns();
        let n = br.len() * br.len();
        let ins_small = inputs(&['a', 'b', 'x', 'y', 'z'], 4);
        let ins_3way = inputs(&['a', 'b', 'x', 'y', 'p', 'q', 'r'], 3);
        let accs = par_for(n, 16, || Acc { samples: Samples::new(1), ..Default::default() }, |acc, i| {
            let (p, q) = (&br[i / br.len()], &br[i % br.len()]);
            if p == q {
                return;
            }
            let three = p.contains('p') || p.contains('q') || p.contains('r') || q.contains('p') || q.contains('q') || q.contains('r');
            let small = p.contains('z') || q.contains('z') || !three;
            let cfg = Cfg::single(vec![bridge::CPat::new(&format!("{p}|{q}"), 3)]);
            if three && small {
                // mixed alphabets: both input sets
                run_cfg(acc, &cfg, &ins_3way, &tables, "branches");
            }
            run_cfg(acc, &cfg, if three && !small { &ins_3way } else { &ins_small }, &tables, "branches");
        });
        for a in accs {
            merge(&mut total, a);
        }
        families.push(json!({"family": "branching: `P|Q` for all ordered pairs of the branch patterns of C02/C03, inputs {a,b,x,y,z}^<=4 resp. {a,b,x,y,p,q,r}^<=3", "pairs": n, "exhaustive": true}));
    }

    // special characters at the start, in the middle and at the end of the input (byte order
    // mark, U+0000, line and paragraph separators, blank): every input over them up to length 3
    {
        let cfgs = vec![
            Cfg::single(vec![bridge::CPat::new("[^ ]+", 0), bridge::CPat::new(" ", 1)]),
            Cfg::single(vec![bridge::CPat::new(".", 0), bridge::CPat::new("\\n", 1)]),
            Cfg::single(vec![bridge::CPat::new("[\\x{feff}a]", 0), bridge::CPat::new("a+", 1), bridge::CPat::new("[^a]", 2)]),
        ];
        let ins_sp = inputs(&['\u{feff}', 'a', ' ', '\n', '\0', '\u{2028}'], 3);
        let accs = par_for(cfgs.len(), 1, || Acc { samples: Samples::new(1), ..Default::default() }, |acc, i| {
            run_cfg(acc, &cfgs[i], &ins_sp, &tables, "special-characters");
        });
        for a in accs {
            merge(&mut total, a);
        }
        families.push(json!({"family": "special characters: every input over {U+FEFF, a, blank, line feed, U+0000, U+2028} up to length 3 on three pattern sets with wide classes", "configurations": cfgs.len(), "inputs": ins_sp.len(), "exhaustive": true}));
    }

    // registration order: character class ids follow the order of first use, not the priority order
    // of the patterns that compete; a leading pattern `#XYZ` (never matched here) registers the
    // classes of three competing patterns in every permutation
    {
        let menu = ["a", "[ab]", "\\w", ".", "[^b]", "[a-z]+"];
        let mut cfgs = vec![];
        let perms: [[usize; 3]; 6] = [[0, 1, 2], [0, 2, 1], [1, 0, 2], [1, 2, 0], [2, 0, 1], [2, 1, 0]];
        for x in 0..menu.len() {
            for y in 0..menu.len() {
                for z in 0..menu.len() {
                    if x == y || y == z || x == z {
                        continue;
                    }
                    let pats = [menu[x], menu[y], menu[z]];
                    for p in perms {
                        let reg = format!("#({})({})({})", pats[p[0]], pats[p[1]], pats[p[2]]);
                        cfgs.push(Cfg::single(vec![bridge::CPat::new(&reg, 9), bridge::CPat::new(pats[0], 2), bridge::CPat::new(pats[1], 0), bridge::CPat::new(pats[2], 1)]));
                    }
                }
            }
        }
        let ins3 = inputs(&['a', 'b', 'x', '#'], 3);
        let accs = par_for(cfgs.len(), 8, || Acc { samples: Samples::new(1), ..Default::default() }, |acc, i| {
            run_cfg(acc, &cfgs[i], &ins3, &tables, "registration-order");
        });
        for a in accs {
            merge(&mut total, a);
        }
        families.push(json!({"family": "registration order: three competing patterns (all ordered triples of 6 overlapping one-class patterns) behind a leading pattern that registers their classes in each of the 6 permutations", "configurations": cfgs.len(), "inputs": ins3.len(), "exhaustive": true}));
    }

    // long inputs: corpora on their input files, synthetic inputs beyond 2^8 / 2^16 bytes
    {
        let cases = crate::longscan::long_cases(false);
        let mut t2 = tables.clone();
        let mut keys = vec![];
        for c in &cases {
            keys.extend(c.1.atom_keys());
        }
        keys.sort();
        keys.dedup();
        if let Err(e) = bridge::tabulate_atoms(&keys, &mut t2) {
            refsem::evidence::machinery(&format!("cannot tabulate atoms of the corpora: {e}"));
        }
        let accs = par_for(cases.len(), 1, || Acc { samples: Samples::new(1), ..Default::default() }, |acc, i| {
            let (name, cfg, input) = &cases[i];
            acc.cfgs += 1;
            acc.scans += 1;
            let lr = match crate::longscan::LongRef::new(cfg) {
                Ok(l) => l,
                Err(_) => return,
            };
            let toks = match bridge::catch(|| cfg.build_uncached().map(|sc| bridge::scan_all(&sc, input))) {
                Ok(Ok(Ok(t))) => t,
                other => {
                    acc.viol.add("", || Violation { key: String::new(), summary: format!("{name}: build or scan failed: {:?}", other.map(|r| r.map(|x| x.map(|v| v.len())))), replay: json!({"case": name, "configuration": cfg.to_json(), "input_bytes": input.len()}) });
                    return;
                }
            };
            let (n, competed, d) = lr.compare_stream(input, &toks, &t2);
            acc.stats.tokens += n;
            acc.stats.competed += competed;
            if n > 0 {
                acc.nontrivial += 1;
            }
            if let Some(d) = d {
                acc.viol.add("", || Violation { key: String::new(), summary: format!("{name}: {d}"), replay: json!({"case": name, "configuration": cfg.to_json(), "input_bytes": input.len(), "input_prefix": input.chars().take(60).collect::<String>(), "disagreement": d, "calls": ["build_uncached()", "find_iter(input) to exhaustion"]}) });
            }
            acc.long.push(json!({"case": name, "input_bytes": input.len(), "tokens_compared": n, "positions_with_competing_patterns": competed}));
        });
        for a in accs {
            merge(&mut total, a);
        }
        families.push(json!({"family": "long inputs: lookahead-free corpora on their input files (parol also on benches/input_1.par), synthetic inputs with tokens/offsets beyond 255 and 65 535 bytes, 20 000 mode switches", "cases": cases.iter().map(|c| c.0.clone()).collect::<Vec<_>>()}));
    }

    // add_patterns: token type = index
    {
        let g2 = refsem::families::g_upto(2);
        let ins3 = inputs(&['a', 'b', 'x', '€'], 3);
        let mut acc = Acc { samples: Samples::new(2), ..Default::default() };
        let mut n_simple = 0;
        for p in &g2 {
            for q in &g2 {
                n_simple += 1;
                let pats = [p.as_str(), q.as_str(), "x"];
                let cfg = cfg_of(&pats, &[0, 1, 2]);
                let spec = match cfg.to_spec() {
                    Ok(s) => s,
                    Err(_) => continue,
                };
                let sc = match bridge::catch(|| scnr::ScannerBuilder::new().add_patterns(pats).build()) {
                    Ok(Ok(sc)) => sc,
                    _ => {
                        acc.build_errors += 1;
                        continue;
                    }
                };
                acc.cfgs += 1;
                for input in &ins3 {
                    acc.scans += 1;
                    let table = ScanTable::new(&spec, input, &tables);
                    let mut st = ScanStats::default();
                    if let Some(d) = lockstep(&sc, &spec, &table, input, None, 0, 1, &mut st) {
                        acc.viol.add("", || {
                            let mut r = replay_json(&cfg, input, None, 0, &d);
                            r["calls"][0] = json!("ScannerBuilder::new().add_patterns([p0, p1, p2]).build()  (token type = index)");
                            Violation { key: String::new(), summary: format!("add_patterns({:?}) on {:?}: {}", pats, input, d.detail), replay: r }
                        });
                        break;
                    }
                    if st.tokens > 0 && (st.competed > 0 || st.skipped > 0) {
                        acc.nontrivial += 1;
                    }
                }
            }
        }
        // lists containing empty and nullable patterns at every position: the token type is the index
        let menu = ["", "a", "b", "()", "a*", "ab"];
        let mut n_lists = 0;
        for code in 0..menu.len().pow(4) {
            let idx = [code % 6, (code / 6) % 6, (code / 36) % 6, (code / 216) % 6];
            let pats: Vec<&str> = idx.iter().map(|&i| menu[i]).collect();
            n_lists += 1;
            let cfg = cfg_of(&pats, &[0, 1, 2, 3]);
            let Ok(spec) = cfg.to_spec() else { continue };
            let sc = match bridge::catch(|| scnr::ScannerBuilder::new().add_patterns(pats.clone()).build()) {
                Ok(Ok(sc)) => sc,
                _ => {
                    acc.build_errors += 1;
                    continue;
                }
            };
            acc.cfgs += 1;
            for input in inputs(&['a', 'b'], 3).iter() {
                acc.scans += 1;
                let table = ScanTable::new(&spec, input, &tables);
                let mut st = ScanStats::default();
                if let Some(d) = lockstep(&sc, &spec, &table, input, None, 0, 1, &mut st) {
                    acc.viol.add("", || {
                        let mut r = replay_json(&cfg, input, None, 0, &d);
                        r["calls"][0] = json!(format!("ScannerBuilder::new().add_patterns({pats:?}).build()  (token type = index)"));
                        Violation { key: String::new(), summary: format!("add_patterns({:?}) on {:?}: {}", pats, input, d.detail), replay: r }
                    });
                    break;
                }
            }
        }
        families.push(json!({"family": "add_patterns([p,q,x]) for all ordered pairs over G(2), inputs {a,b,x,€}^<=3", "configurations": n_simple, "exhaustive": true}));
        families.push(json!({"family": "add_patterns of every list of 4 patterns from {\"\", a, b, (), a*, ab} (empty and nullable patterns at every position), inputs {a,b}^<=3", "lists": n_lists, "exhaustive": true}));
        merge(&mut total, acc);
    }

    let n_disagreeing = total.viol.total();
    std::mem::take(&mut total.viol).flush(&mut run);
    let mut cov = Map::new();
    cov.insert("evaluations".into(), json!(total.scans));
    cov.insert("distinct_nontrivial".into(), json!(total.nontrivial));
    cov.insert("rule".into(), json!("one evaluation = one (configuration, input) pair scanned to exhaustion by the real iterator in lockstep with the reference scanner; every pair of the family is enumerated exactly once (so all are distinct); non-trivial = at least one token was produced and either two patterns competed at some position or a character had to be skipped"));
    cov.insert("samples".into(), json!(total.samples.items));
    cov.insert("exhaustive".into(), json!(true));
    cov.insert("configurations".into(), json!(total.cfgs));
    cov.insert("configurations_with_competing_patterns".into(), json!(total.cfgs_competed));
    cov.insert("build_errors".into(), json!(total.build_errors));
    cov.insert("tokens_compared".into(), json!(total.stats.tokens));
    cov.insert("positions_with_competing_patterns".into(), json!(total.stats.competed));
    cov.insert("skipped_characters".into(), json!(total.stats.skipped));
    cov.insert("distinct_outcome_signatures".into(), json!(total.outcomes.len()));
    cov.insert("long_input_cases".into(), json!(total.long));
    cov.insert("families".into(), json!(families));
    cov.insert("disagreeing_configurations".into(), json!(n_disagreeing));
    run.finish(
        "exploration",
        cov,
        &["regex-syntax's parser is shared with scnr and trusted", "\\w is an opaque atom tabulated through the public API", "the all-strings part of the claim (automaton language) is decided by C02/C03; this check covers find_from's bookkeeping and the skip logic on bounded inputs"],
    )
}
