//! `pubcheck replay <file>`: re-executes a replay file through scnr's public API only (no
//! explorer, no reference model) and prints what the real code does, so that a violation can be
//! looked at in isolation. Deterministic: the check script runs it twice and compares the output.

use bridge::{CMode, CPat, Cfg};
use scnr::{MatchExtIterator, PositionProvider, ScannerModeSwitcher};
use serde_json::Value;

fn cfg_from(v: &Value) -> Option<Cfg> {
    let modes = v.as_array()?;
    let mut out = vec![];
    for m in modes {
        let mut pats = vec![];
        for p in m["patterns"].as_array()? {
            let la = match &p["lookahead"] {
                Value::Null => None,
                l => Some((l["is_positive"].as_bool()?, l["pattern"].as_str()?.to_string())),
            };
            pats.push(CPat { pat: p["pattern"].as_str()?.to_string(), tt: p["token_type"].as_u64()? as usize, la });
        }
        let transitions = m["transitions"].as_array()?.iter().filter_map(|t| Some((t[0].as_u64()? as usize, t[1].as_u64()? as usize))).collect();
        out.push(CMode { name: m["name"].as_str()?.to_string(), pats, transitions });
    }
    Some(Cfg { modes: out })
}

fn num_in(s: &str) -> Option<usize> {
    let digits: String = s.chars().skip_while(|c| !c.is_ascii_digit()).take_while(|c| c.is_ascii_digit()).collect();
    digits.parse().ok()
}

pub fn run(path: &str) -> ! {
    let text = std::fs::read_to_string(path).unwrap_or_else(|e| refsem::evidence::machinery(&format!("{path}: {e}")));
    let doc: Value = serde_json::from_str(&text).unwrap_or_else(|e| refsem::evidence::machinery(&format!("{path}: {e}")));
    println!("property : {}", doc["property"].as_str().unwrap_or("?"));
    println!("reported : {}", doc["summary"].as_str().unwrap_or("?"));
    let r = &doc["replay"];
    let Some(cfg) = cfg_from(&r["configuration"]) else {
        println!("(this replay file has no single configuration + input; it is a description of the failing case:)");
        println!("{}", serde_json::to_string_pretty(r).unwrap());
        std::process::exit(0);
    };
    println!("configuration: {}", cfg.show());
    let built = bridge::catch(|| cfg.build_uncached());
    let sc = match built {
        Ok(Ok(sc)) => sc,
        Ok(Err(e)) => {
            println!("build_uncached() -> Err({e})");
            std::process::exit(0);
        }
        Err(p) => {
            println!("build_uncached() panicked: {p}");
            std::process::exit(0);
        }
    };
    println!("build_uncached() -> Ok");
    let Some(input) = r["input"].as_str() else {
        println!("(no input recorded)");
        std::process::exit(0);
    };
    println!("input: {input:?}");
    let with_positions = r["iterator"].as_str().map(|s| s.contains("with_positions")).unwrap_or(false);
    let mut ops: Vec<String> = vec![];
    if let Some(h) = r["history"].as_array() {
        ops.extend(h.iter().filter_map(|x| x.as_str().map(|s| s.to_string())));
        if let Some(t) = r["then"].as_str() {
            ops.push(t.to_string());
        }
    } else {
        // E2 style: optional set_mode / with_offset taken from the recorded calls, then drain
        if let Some(calls) = r["calls"].as_array() {
            for c in calls.iter().filter_map(|c| c.as_str()) {
                if let Some(i) = c.find(".set_mode(") {
                    ops.push(format!("set_mode({})", num_in(&c[i..]).unwrap_or(0)));
                }
                if let Some(i) = c.find(".with_offset(") {
                    ops.push(format!("set_offset({})", num_in(&c[i..]).unwrap_or(0)));
                }
            }
        }
    }
    let res = bridge::catch(|| {
        let mut out = vec![];
        if with_positions {
            let mut it = sc.find_iter(input).with_positions();
            for op in &ops {
                if op.starts_with("next") {
                    out.push(format!("{op} -> {:?}", it.next()));
                } else if op.starts_with("set_offset") {
                    it.set_offset(num_in(op).unwrap_or(0));
                    out.push(op.to_string());
                } else if op.starts_with("set_mode") {
                    it.set_mode(num_in(op).unwrap_or(0));
                    out.push(op.to_string());
                }
            }
            for _ in 0..input.len() + 2 {
                let m = it.next();
                out.push(format!("next() -> {m:?}"));
                if m.is_none() {
                    break;
                }
            }
            for o in 0..=input.len() {
                if input.is_char_boundary(o) {
                    out.push(format!("position({o}) = {:?}", it.position(o)));
                }
            }
        } else {
            let mut it = sc.find_iter(input);
            for op in &ops {
                if op.starts_with("next") {
                    out.push(format!("{op} -> {:?}   [mode {}]", it.next(), it.current_mode()));
                } else if op.starts_with("peek_n") {
                    out.push(format!("{op} -> {:?}", it.peek_n(num_in(op).unwrap_or(1))));
                } else if op.starts_with("advance_to") {
                    // "advance_to(end of match #k of peek_n(k+1))"
                    let k = op.find('#').and_then(|i| num_in(&op[i..])).unwrap_or(0);
                    let p = it.peek_n(k + 1);
                    let v = match &p {
                        scnr::PeekResult::Matches(v) | scnr::PeekResult::MatchesReachedEnd(v) => v.clone(),
                        scnr::PeekResult::MatchesReachedModeSwitch((v, _)) => v.clone(),
                        scnr::PeekResult::NotFound => vec![],
                    };
                    match v.get(k) {
                        Some(m) => out.push(format!("peek_n({}) -> {p:?}; advance_to({}) -> {}", k + 1, m.end(), it.advance_to(m.end()))),
                        None => out.push(format!("peek_n({}) -> {p:?}; nothing to advance to", k + 1)),
                    }
                } else if op.starts_with("set_offset") {
                    it.set_offset(num_in(op).unwrap_or(0));
                    out.push(op.to_string());
                } else if op.starts_with("set_mode") {
                    it.set_mode(num_in(op).unwrap_or(0));
                    out.push(format!("{op}   [mode {}]", it.current_mode()));
                }
            }
            for _ in 0..input.len() + 2 {
                let m = it.next();
                out.push(format!("next() -> {m:?}   [mode {}]", it.current_mode()));
                if m.is_none() {
                    break;
                }
            }
        }
        out
    });
    match res {
        Ok(lines) => lines.iter().for_each(|l| println!("  {l}")),
        Err(p) => println!("  panicked: {p}"),
    }
    println!("expected : {}", r["disagreement"].as_str().or(r["broken_invariant"].as_str()).unwrap_or("see the replay file"));
    std::process::exit(0);
}
