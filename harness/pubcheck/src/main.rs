//! Checks that use scnr's public API only (no feature).
mod c01;
mod c04;
mod c08;
mod c12;
mod c14stress;
mod c15;
mod c16;
mod e2;
mod fam;
mod histpub;
mod longscan;
mod replay;

use refsem::evidence::{machinery, parse_args};

fn main() {
    let args: Vec<String> = std::env::args().collect();
    if args.get(1).map(|s| s.as_str()) == Some("replay") {
        bridge::quiet_panics();
        replay::run(args.get(2).map(|s| s.as_str()).unwrap_or(""));
    }
    if args.get(1).map(|s| s.as_str()) == Some("c14-stress") {
        bridge::quiet_panics();
        c14stress::run(args.get(2).map(|s| s.as_str()) != Some("thorough"));
    }
    if args.get(1).map(|s| s.as_str()) == Some("c15-deep") {
        bridge::quiet_panics();
        c15::deep_child(&args[2..]);
    }
    let (prop, tier, _rest) = parse_args();
    bridge::quiet_panics();
    match prop.as_str() {
        "C01" => c01::run(tier),
        "C04" => c04::run("C04", tier),
        "C05" => c04::run("C05", tier),
        "C07" => c04::run("C07", tier),
        "C08" => c08::run(tier),
        "C12" => c12::run(tier),
        "C15" => c15::run(tier),
        "C16" => c16::run(tier),
        p => machinery(&format!("pubcheck does not know property {p}")),
    }
}
