//! Supporting pass for C14 (NOT the deciding step, it samples schedules): the harness bodies of the
//! loom check run free on real OS threads, including the calls loom cannot interleave (uncached
//! builds and drops whose only shared state is reference counts of std's Arc/Weak). Prints one JSON
//! object on stdout; used by loomcheck.

use bridge::{catch, CMode, CPat, Cfg};
use serde_json::json;
use std::sync::atomic::{AtomicUsize, Ordering};
use std::sync::{Arc, Barrier, Mutex};

fn cfgs() -> Vec<(Cfg, bool)> {
    let la = |p: &str, tt: usize, pos: bool, l: &str| CPat::new(p, tt).with_la(pos, l);
    let a = Cfg {
        modes: vec![
            CMode { name: "INITIAL".into(), pats: vec![la("a", 0, true, "b"), CPat::new("b", 1), CPat::new("a+", 2), CPat::new("\\p{Uppercase}+", 3), CPat::new("\\PL", 4)], transitions: vec![(1, 1)] },
            CMode { name: "SECOND".into(), pats: vec![CPat::new("b+", 0), CPat::new("a", 1), CPat::new("\\pL", 5), CPat::new("[^\\pL]", 6)], transitions: vec![(1, 0)] },
        ],
    };
    let mut a2 = a.clone();
    a2.modes[0].pats[0].la = Some((false, "b".into()));
    let b = Cfg::single(vec![CPat::new("[ab]+", 3), CPat::new("\\p{Uppercase}", 1), CPat::new("\\pL+", 2), CPat::new("\\s+", 0)]);
    let bad = Cfg::single(vec![CPat::new("a", 0), CPat::new("\\p{Greek}+", 1), CPat::new("\\pL", 2)]);
    let bad2 = Cfg::single(vec![CPat::new("\\p{Uppercase}", 0), CPat::new("(?i)b", 1)]);
    // configurations that are NEVER built through the cache (the cache keeps its entries alive for
    // ever): their character classes have no permanent owner, so the last owner of a class is
    // dropped and re-created all the time
    let u1 = Cfg::single(vec![CPat::new("\\p{Lowercase}+", 0), CPat::new("[x-z]+\\d", 1), CPat::new("\\d+", 2)]);
    let u2 = Cfg::single(vec![CPat::new("\\d+", 5), CPat::new("\\p{Lowercase}", 1)]);
    let u3 = Cfg::single(vec![CPat::new("\\p{Lowercase}+", 0), CPat::new("\\p{Greek}+", 1), CPat::new("\\d+", 2)]);
    // deeply nested patterns (130 groups), built outside the cache
    let deep = |inner: &str, tt: usize| Cfg::single(vec![CPat::new(&format!("{}{inner}{}", "(".repeat(130), ")".repeat(130)), tt), CPat::new("[ab1]", tt + 1)]);
    let (d1, d2, d3) = (deep("a+", 7), deep("b|É", 3), deep("a(?i)", 1));
    vec![(a, true), (a2, true), (b, true), (bad, true), (bad2, true), (u1, false), (u2, false), (u3, false), (d1, false), (d2, false), (d3, false)]
}

const INPUTS: [&str; 2] = ["xabÉé1b xBba", "ü1Éxab Ab"];

pub fn run(quick: bool) -> ! {
    let cfgs = cfgs();
    // sequential expectations
    let expected: Vec<Result<Vec<Vec<(usize, usize, usize)>>, ()>> = cfgs
        .iter()
        .map(|(c, _)| match c.build_uncached() {
            Ok(sc) => Ok(INPUTS.iter().map(|i| sc.find_iter(i).map(|m| (m.token_type(), m.start(), m.end())).collect()).collect()),
            Err(_) => Err(()),
        })
        .collect();
    let n_threads = 8;
    let iters = if quick { 40_000 } else { 200_000 };
    let problems: Arc<Mutex<Vec<String>>> = Arc::new(Mutex::new(vec![]));
    let ops_done = Arc::new(AtomicUsize::new(0));
    let barrier = Arc::new(Barrier::new(n_threads));
    let cfgs = Arc::new(cfgs);
    let expected = Arc::new(expected);
    let handles: Vec<_> = (0..n_threads)
        .map(|t| {
            let (cfgs, expected, problems, ops_done, barrier) = (cfgs.clone(), expected.clone(), problems.clone(), ops_done.clone(), barrier.clone());
            std::thread::spawn(move || {
                barrier.wait();
                for i in 0..iters {
                    if i % 4 == 1 {
                        // a configuration nobody built before (an unbounded supply of distinct
                        // patterns: whatever the library memoizes per pattern text fills up and
                        // wraps), built outside the cache; its tokens are known by construction
                        let word = format!("q{t}x{i}");
                        let fresh = Cfg::single(vec![CPat::new(&word, 0), CPat::new("[0-9]+", 1)]);
                        let input = format!("{word}{i}");
                        let want = vec![(0usize, 0usize, word.len()), (1, word.len(), input.len())];
                        let r = catch(|| fresh.build_uncached().map(|sc| sc.find_iter(&input).map(|m| (m.token_type(), m.start(), m.end())).collect::<Vec<_>>()));
                        ops_done.fetch_add(1, Ordering::Relaxed);
                        if !matches!(&r, Ok(Ok(v)) if *v == want) {
                            let mut p = problems.lock().unwrap();
                            if p.len() < 5 {
                                p.push(format!("thread {t}, iteration {i}: build_uncached() of the fresh configuration ({}) on {input:?}: observed {:?}, sequentially {want:?}", fresh.show(), r.as_ref().map(|x| x.as_ref().map_err(|e| e.to_string()))));
                            }
                            if p.len() >= 5 {
                                return;
                            }
                        }
                        continue;
                    }
                    let k = (i * 7 + t * 3) % cfgs.len();
                    let cached = cfgs[k].1 && (i + t) % 3 == 0;
                    let r = catch(|| {
                        let built = if cached { cfgs[k].0.build_cached() } else { cfgs[k].0.build_uncached() };
                        built.map(|sc| INPUTS.iter().map(|inp| sc.find_iter(inp).map(|m| (m.token_type(), m.start(), m.end())).collect::<Vec<_>>()).collect::<Vec<_>>()).map_err(|_| ())
                    });
                    ops_done.fetch_add(1, Ordering::Relaxed);
                    let bad = match &r {
                        Err(p) => Some(format!("panicked: {p}")),
                        Ok(got) => {
                            if got != &expected[k] {
                                Some(format!("observed {:?}, sequentially {:?}", got.as_ref().map(|v| v.len()), expected[k].as_ref().map(|v| v.len())))
                            } else {
                                None
                            }
                        }
                    };
                    if let Some(b) = bad {
                        let mut p = problems.lock().unwrap();
                        if p.len() < 5 {
                            p.push(format!("thread {t}, iteration {i}: {} of configuration #{k} ({}): {b}", if cached { "build()" } else { "build_uncached()" }, cfgs[k].0.show()));
                        }
                        if p.len() >= 5 {
                            return;
                        }
                    }
                }
            })
        })
        .collect();
    let mut thread_panics = 0;
    for h in handles {
        if h.join().is_err() {
            thread_panics += 1;
        }
    }
    let p = problems.lock().unwrap().clone();
    println!("{}", json!({"threads": n_threads, "operations": ops_done.load(Ordering::Relaxed), "problems": p, "thread_panics": thread_panics, "sampled": true}));
    std::process::exit(0);
}
