//! Stateless enumeration of call histories through the public API only (no snapshot hook): every
//! history up to depth D over a small operation alphabet, followed by a drain to exhaustion.
//! Used by C07 (safety invariants along histories).

use bridge::{catch, CMode, CPat, Cfg};
use scnr::{MatchExtIterator, PeekResult, PositionProvider, Scanner, ScannerModeSwitcher};

#[derive(Clone, Copy, Debug, PartialEq, Eq)]
pub enum HOp {
    Next,
    Peek2,
    /// `peek_n(usize::MAX)`: "all remaining tokens of this mode"
    PeekMax,
    AdvPeek0,
    SetOffset(usize),
    SetMode(usize),
    /// `advance_to(p)` with an arbitrary position (documented: beyond the end stops at the end,
    /// behind the current position does not move)
    AdvanceTo(usize),
}

impl HOp {
    pub fn show(&self) -> String {
        match self {
            HOp::Next => "next()".into(),
            HOp::Peek2 => "peek_n(2)".into(),
            HOp::PeekMax => "peek_n(usize::MAX)".into(),
            HOp::AdvPeek0 => "advance_to(end of the first match of peek_n(1))".into(),
            HOp::SetOffset(o) => format!("set_offset({o})"),
            HOp::SetMode(m) => format!("set_mode({m})"),
            HOp::AdvanceTo(p) => format!("advance_to({p})"),
        }
    }
}

pub fn alphabet(input: &str, n_modes: usize) -> Vec<HOp> {
    let mut v = vec![HOp::Next, HOp::Peek2, HOp::PeekMax, HOp::AdvPeek0];
    let mut b = 0;
    v.push(HOp::SetOffset(0));
    for c in input.chars() {
        b += c.len_utf8();
        v.push(HOp::SetOffset(b));
    }
    v.push(HOp::SetOffset(input.len() + 1));
    for m in 0..n_modes {
        v.push(HOp::SetMode(m));
    }
    // advance_to with every boundary (backwards ones included) and a position beyond the end
    let mut b = 0;
    v.push(HOp::AdvanceTo(0));
    for c in input.chars() {
        b += c.len_utf8();
        v.push(HOp::AdvanceTo(b));
    }
    v.push(HOp::AdvanceTo(input.len() + 1));
    v
}

fn span_ok(input: &str, s: usize, e: usize) -> Option<String> {
    if e <= s {
        return Some(format!("empty or inverted span {s}..{e}"));
    }
    if e > input.len() {
        return Some(format!("span {s}..{e} exceeds the input length {}", input.len()));
    }
    if !input.is_char_boundary(s) || !input.is_char_boundary(e) {
        return Some(format!("span {s}..{e} is not on character boundaries"));
    }
    None
}

/// Runs one history and then drains the iterator; returns the first broken invariant.
pub fn safety_history(sc: &Scanner, input: &str, hist: &[HOp], tokens_seen: &mut usize) -> Option<String> {
    let r = catch(|| {
        let mut it = sc.find_iter(input);
        // tokens must start at or after `floor`; at most `budget` more tokens may appear before None
        let mut floor = 0usize;
        let mut budget = input.chars().count();
        let mut exhausted = false;
        let mut n_tok = 0usize;
        let check_tok = |s: usize, e: usize, floor: &mut usize, budget: &mut usize, exhausted: bool| -> Option<String> {
            if exhausted {
                return Some(format!("token {s}..{e} delivered after None (no reset in between)"));
            }
            if let Some(b) = span_ok(input, s, e) {
                return Some(b);
            }
            if s < *floor {
                return Some(format!("token {s}..{e} starts before {} (end of the previous token / reset position)", *floor));
            }
            if *budget == 0 {
                return Some(format!("token {s}..{e}: more tokens than characters since the last reset"));
            }
            *budget -= 1;
            *floor = e;
            None
        };
        for (i, op) in hist.iter().enumerate() {
            match op {
                HOp::Next => match it.next() {
                    None => exhausted = true,
                    Some(m) => {
                        n_tok += 1;
                        if let Some(b) = check_tok(m.start(), m.end(), &mut floor, &mut budget, exhausted) {
                            return (Some(format!("op #{i} {}: {b}", op.show())), n_tok);
                        }
                    }
                },
                HOp::Peek2 | HOp::PeekMax | HOp::AdvPeek0 => {
                    let n = match op {
                        HOp::Peek2 => 2,
                        HOp::PeekMax => usize::MAX,
                        _ => 1,
                    };
                    let p = it.peek_n(n);
                    let v = match &p {
                        PeekResult::Matches(v) | PeekResult::MatchesReachedEnd(v) => v.clone(),
                        PeekResult::MatchesReachedModeSwitch((v, _)) => v.clone(),
                        PeekResult::NotFound => vec![],
                    };
                    let mut f = floor;
                    if v.len() > n {
                        return (Some(format!("op #{i} {}: more than n matches", op.show())), n_tok);
                    }
                    for m in &v {
                        if let Some(b) = span_ok(input, m.start(), m.end()) {
                            return (Some(format!("op #{i} {}: peeked {b}", op.show())), n_tok);
                        }
                        if m.start() < f {
                            return (Some(format!("op #{i} {}: peeked match {}..{} starts before {f}", op.show(), m.start(), m.end())), n_tok);
                        }
                        f = m.end();
                    }
                    if *op == HOp::AdvPeek0 {
                        if let Some(m) = v.first() {
                            it.advance_to(m.end());
                            floor = floor.max(m.end());
                        }
                    }
                }
                HOp::SetOffset(o) => {
                    it.set_offset(*o);
                    floor = (*o).min(input.len());
                    budget = input[floor..].chars().count();
                    exhausted = false;
                }
                HOp::SetMode(m) => {
                    it.set_mode(*m);
                    // a different mode may match where the old one did not
                    exhausted = false;
                }
                HOp::AdvanceTo(p) => {
                    let r = it.advance_to(*p);
                    if r > input.len() {
                        return (Some(format!("op #{i} {}: returned position {r} beyond the input length {}", op.show(), input.len())), n_tok);
                    }
                }
            }
            // position queries are iterator calls too: whatever they answer (C09 judges that),
            // they must answer (line and column are 1-based)
            for o in [0, floor.min(input.len()), input.len()] {
                let p = it.position(o);
                if p.line == 0 || p.column == 0 {
                    return (Some(format!("after op #{i} {}: position({o}) is {p:?}; lines and columns are 1-based", op.show())), n_tok);
                }
            }
        }
        // the drain goes through the WithPositions adapter (same tokens, with positions attached)
        let mut it = it.with_positions();
        // drain
        let mut calls = 0;
        let limit = budget + 2;
        loop {
            calls += 1;
            if calls > limit {
                return (Some(format!("iteration did not end within {limit} calls after the history (at most one token per remaining character)")), n_tok);
            }
            match it.next() {
                None => break,
                Some(m) => {
                    n_tok += 1;
                    if let Some(b) = check_tok(m.start(), m.end(), &mut floor, &mut budget, exhausted) {
                        return (Some(format!("drain call #{calls}: {b}")), n_tok);
                    }
                }
            }
        }
        for _ in 0..3 {
            if let Some(m) = it.next() {
                return (Some(format!("token {}..{} delivered after None", m.start(), m.end())), n_tok);
            }
        }
        (None, n_tok)
    });
    match r {
        Ok((d, n)) => {
            *tokens_seen += n;
            d
        }
        Err(p) => Some(format!("panicked: {p}")),
    }
}

/// Configurations for the history-safety family.
pub fn safety_cfgs() -> Vec<Cfg> {
    let la = |p: &str, tt: usize, pos: bool, l: &str| CPat::new(p, tt).with_la(pos, l);
    vec![
        Cfg::single(vec![CPat::new("[a-z]", 0), CPat::new("[0-9]+", 1)]),
        Cfg::single(vec![CPat::new("a+", 0), CPat::new("é", 1), CPat::new("\\n", 2)]),
        Cfg::single(vec![CPat::new("(a|é)*", 0), CPat::new("b?", 1)]),
        Cfg::single(vec![la("[aé]+", 0, true, "b"), la("b", 1, false, "b"), CPat::new("é", 2)]),
        Cfg {
            modes: vec![
                CMode { name: "A".into(), pats: vec![CPat::new("a", 0), CPat::new("b\\n?", 1)], transitions: vec![(1, 1)] },
                CMode { name: "B".into(), pats: vec![CPat::new("[aé]+", 0), CPat::new("b", 1)], transitions: vec![(0, 0)] },
            ],
        },
        Cfg {
            modes: vec![CMode { name: "A".into(), pats: vec![la("a", 0, true, "a*"), CPat::new("é+b", 1)], transitions: vec![(0, 1)] }, CMode { name: "B".into(), pats: vec![], transitions: vec![] }],
        },
        // two modes that are equal in everything (name, patterns, transitions), the second copy
        // reachable only through a transition to its index
        Cfg {
            modes: vec![
                CMode { name: "A".into(), pats: vec![CPat::new("a", 0), CPat::new("[0-9]+", 1)], transitions: vec![(1, 2)] },
                CMode { name: "B".into(), pats: vec![CPat::new("b", 0)], transitions: vec![(0, 0)] },
                CMode { name: "A".into(), pats: vec![CPat::new("a", 0), CPat::new("[0-9]+", 1)], transitions: vec![(1, 2)] },
            ],
        },
    ]
}
