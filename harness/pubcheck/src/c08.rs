//! C08: character classes are the set algebra of their parts, for every scalar value.

use bridge::tabulate_pattern;
use refsem::evidence::{Run, Samples, Tier, ViolAcc, Violation};
use refsem::par::par_for;
use refsem::sem::{bracket_has, bracket_set, collect_atom_keys, parse_ast, AtomTables, CharSet};
use regex_syntax::ast::Ast;
use serde_json::{json, Map};
use std::time::Instant;

const ITEMS: [&str; 12] = ["a", "\\.", ".", "a-c", "b-é", "\\d", "\\W", "[:alpha:]", "[:^digit:]", "\\p{Lowercase}", "\\PL", "\\s"];

const ASCII_NAMES: [&str; 14] = ["alnum", "alpha", "ascii", "blank", "cntrl", "digit", "graph", "lower", "print", "punct", "space", "upper", "word", "xdigit"];
const ONE_LETTER: [&str; 5] = ["L", "N", "Z", "P", "C"];
const NAMED: [&str; 53] = [
    "Alphabetic", "ASCII_Hex_Digit", "Bidi_Control", "Case_Ignorable", "Cased", "Composition_Exclusion", "Dash", "Default_Ignorable_Code_Point", "Deprecated", "Diacritic", "Emoji_Component", "Emoji_Modifier_Base",
    "Emoji_Modifier", "Emoji_Presentation", "Emoji", "Extended_Pictographic", "Extender", "Full_Composition_Exclusion", "Grapheme_Extend", "Hex_Digit", "Hyphen", "ID_Continue", "ID_Start", "Ideographic",
    "IDS_Binary_Operator", "IDS_Trinary_Operator", "Join_Control", "Logical_Order_Exception", "Lowercase", "Math", "Noncharacter_Code_Point", "Other_Alphabetic", "Other_Default_Ignorable_Code_Point",
    "Other_Grapheme_Extend", "Other_ID_Continue", "Other_ID_Start", "Other_Lowercase", "Other_Math", "Other_Uppercase", "Pattern_Syntax", "Pattern_White_Space", "Prepended_Concatenation_Mark", "Quotation_Mark",
    "Radical", "Regional_Indicator", "Sentence_Terminal", "Soft_Dotted", "Terminal_Punctuation", "Unified_Ideograph", "Uppercase", "Variation_Selector", "White_Space", "XID_Continue",
];

/// `(positive item text, negated item text)` of every named atom scnr documents.
fn named_atoms() -> Vec<(String, String)> {
    let mut v = vec![("\\d".to_string(), "\\D".to_string()), ("\\s".into(), "\\S".into()), ("\\w".into(), "\\W".into())];
    for n in ASCII_NAMES {
        v.push((format!("[:{n}:]"), format!("[:^{n}:]")));
    }
    for n in ONE_LETTER {
        v.push((format!("\\p{n}"), format!("\\P{n}")));
    }
    for n in NAMED.iter().chain(["XID_Start"].iter()) {
        v.push((format!("\\p{{{n}}}"), format!("\\P{{{n}}}")));
    }
    v
}

fn unions(max: usize) -> Vec<String> {
    let mut v: Vec<String> = ITEMS.iter().map(|s| s.to_string()).collect();
    if max >= 2 {
        for i in ITEMS {
            for j in ITEMS {
                v.push(format!("{i}{j}"));
            }
        }
    }
    v
}

fn expressions(tier: Tier, seed: u64) -> (Vec<(String, &'static str)>, Vec<serde_json::Value>) {
    let mut e: Vec<(String, &'static str)> = vec![];
    let mut fams = vec![];
    // depth <= 1
    let u2 = unions(2);
    for s in &u2 {
        e.push((format!("[{s}]"), "depth1"));
        e.push((format!("[^{s}]"), "depth1"));
    }
    fams.push(json!({"family": "depth<=1: unions of <=2 of 12 items, negated or not", "expressions": 2 * u2.len(), "exhaustive": true}));
    // depth 2 over single items
    let n0 = e.len();
    for x in ITEMS {
        for y in ITEMS {
            for op in ["&&", "--", "~~"] {
                e.push((format!("[{x}{op}{y}]"), "depth2-items"));
                e.push((format!("[^{x}{op}{y}]"), "depth2-items"));
                e.push((format!("[{x}{op}[^{y}]]"), "depth2-items"));
            }
            e.push((format!("[{x}[^{y}]]"), "depth2-items"));
            e.push((format!("[^[{x}][^{y}]]"), "depth2-items"));
        }
    }
    fams.push(json!({"family": "depth 2 over item pairs: [X op Y], [^X op Y], [X op [^Y]], [X[^Y]], [^[X][^Y]] for op in &&,--,~~", "expressions": e.len() - n0, "exhaustive": true}));
    // nesting of negations: a nested bracket as the only item, double and triple negation
    let n0 = e.len();
    for x in ITEMS {
        for sh in ["[[{x}]]", "[[^{x}]]", "[^[{x}]]", "[^[^{x}]]", "[^[^[^{x}]]]", "[[^[^{x}]]]", "[^[[^{x}]]]"] {
            e.push((sh.replace("{x}", x), "negation-nesting"));
        }
        for y in ITEMS {
            for sh in ["[^[^{x}]{y}]", "[^[^{x}][^{y}]]", "[[^{x}]&&[^{y}]]", "[^[^{x}]&&[^{y}]]", "[^[^{x}]--{y}]", "[^[^{x}]~~[^{y}]]", "[[^{x}{y}]]", "[^[^{x}{y}]]", "[{y}[^[^{x}]]]", "[^{y}[^[^{x}]]]"] {
                e.push((sh.replace("{x}", x).replace("{y}", y), "negation-nesting"));
            }
        }
    }
    fams.push(json!({"family": "negation nesting: [[X]], [[^X]], [^[X]], [^[^X]], [^[^[^X]]], ... and two-item variants with a doubly negated member", "expressions": e.len() - n0, "exhaustive": true}));
    // depth 3: three levels of brackets / operators over a small item set
    let n0 = e.len();
    let small = ["a", "a-c", "\\d", "[:alpha:]", "\\PL"];
    for x in small {
        for y in small {
            for z in small {
                e.push((format!("[{x}[{y}[^{z}]]]"), "depth3"));
                e.push((format!("[^{x}[^{y}[^{z}]]]"), "depth3"));
                e.push((format!("[[{x}--{y}]~~{z}]"), "depth3"));
                e.push((format!("[{x}&&[{y}--[^{z}]]]"), "depth3"));
                e.push((format!("[^[{x}{y}]&&[^{z}]]"), "depth3"));
            }
        }
    }
    fams.push(json!({"family": "depth 3 over 5 items: [X[Y[^Z]]], [^X[^Y[^Z]]], [[X--Y]~~Z], [X&&[Y--[^Z]]], [^[XY]&&[^Z]]", "expressions": e.len() - n0, "exhaustive": true}));
    // literal escapes and ranges: every spelling of a literal is that one character; range bounds at
    // the edges of the scalar value space (0, the surrogate gap, the BMP/astral border, 10FFFF)
    let n0 = e.len();
    let esc = [
        "\\x2E", "\\u{2E}", "\\x{2e}", "\\U0000002E", "\\x41", "\\u{e9}", "\\n", "\\t", "\\-", "\\]", "\\\\", "\\^", "\\x00", "\\u{10FFFF}", "\\u{D7FF}", "\\u{E000}",
        "a-a", "\\u{0}-\\u{0}", "\\u{0}-\\u{10FFFF}", "\\u{0}-\\u{FFFF}", "\\u{D7FF}-\\u{E000}", "\\u{D000}-\\u{F000}", "\\u{E000}-\\u{FFFF}", "\\u{FFFF}-\\u{10000}", "\\u{1F600}-\\u{1F64F}",
        "\\u{10FFFE}-\\u{10FFFF}", "\\u{10000}-\\u{10FFFF}", "!-/", "\\t-\\r", "\\u{7F}-\\u{A0}", "\\x2D-\\x2F", "+--", "\\x41-\\x5A", "\\x41-\\x5a", "\\u{41}-\\x{5A}", "\\x61-z", "0-\\x39",
    ];
    for x in esc {
        e.push((format!("[{x}]"), "escapes-ranges"));
        e.push((format!("[^{x}]"), "escapes-ranges"));
        e.push((format!("[a{x}]"), "escapes-ranges"));
        e.push((format!("[{x}&&[^a]]"), "escapes-ranges"));
        e.push((format!("[\\w--{x}]"), "escapes-ranges"));
        e.push((format!("[{x}~~\\u{{0}}-\\u{{E000}}]"), "escapes-ranges"));
        e.push((format!("[^{x}[^b-é]]"), "escapes-ranges"));
        for y in ["\\x2E", "\\u{D7FF}-\\u{E000}", "\\u{0}-\\u{FFFF}"] {
            e.push((format!("[{x}{y}]"), "escapes-ranges"));
            e.push((format!("[{x}--{y}]"), "escapes-ranges"));
        }
    }
    for x in ["[a-c--]", "[a-c~~]", "[a-c&&]", "[&&a-c]", "[--a-c]", "[^a-c--]", "[x[a-c--]]", "[a-z&&[a-c~~]]", "[^&&]", "[\\w--]"] {
        e.push((x.to_string(), "escapes-ranges"));
    }
    fams.push(json!({"family": "literal escapes (\\x2E, \\u{..}, \\n, \\-, ...) and ranges with bounds at 0, the surrogate gap, U+FFFF/U+10000 and U+10FFFF, alone, negated, in unions and under &&, --, ~~", "expressions": e.len() - n0, "exhaustive": true}));
    // named atoms in contexts
    let n0 = e.len();
    for (pos, neg) in named_atoms() {
        let bracket_only = pos.starts_with("[:");
        if !bracket_only {
            e.push((pos.clone(), "named"));
            e.push((neg.clone(), "named"));
        }
        for it in [&pos, &neg] {
            e.push((format!("[{it}]"), "named"));
            e.push((format!("[^{it}]"), "named"));
            e.push((format!("[a{it}]"), "named"));
            e.push((format!("[{it}&&[^a]]"), "named"));
        }
        e.push((format!("[{pos}--{neg}]"), "named"));
        e.push((format!("[{pos}~~{neg}]"), "named"));
    }
    fams.push(json!({"family": "every named atom scnr documents (3 Perl, 14 ASCII, 5 one-letter, 54 named; each also negated) alone, in [..], [^..], [a..], [..&&[^a]], [X--notX], [X~~notX]", "expressions": e.len() - n0, "exhaustive": true}));
    // corpora classes
    let n0 = e.len();
    let mut texts = vec![];
    for (_, cfg, _) in bridge::corpora(true) {
        for m in &cfg.modes {
            for p in &m.pats {
                for pat in std::iter::once(&p.pat).chain(p.la.iter().map(|l| &l.1)) {
                    if let Ok(a) = parse_ast(pat) {
                        collect_brackets(&a, &mut texts);
                    }
                }
            }
        }
    }
    texts.sort();
    texts.dedup();
    for t in texts {
        e.push((t, "corpora"));
    }
    fams.push(json!({"family": "every bracketed class of the repository corpora", "expressions": e.len() - n0, "exhaustive": true}));
    if tier == Tier::Thorough {
        // depth 2 over unions: [S1 op S2], [^S1 op S2] for unions of <= 2 items; enumerated in a fixed
        // order, rotated by the seed, cut by the wall-clock cap (reported).
        let n0 = e.len();
        let mut block = vec![];
        for s1 in &u2 {
            for s2 in &u2 {
                for op in ["&&", "--", "~~"] {
                    block.push((format!("[{s1}{op}{s2}]"), "depth2-unions"));
                    block.push((format!("[^{s1}{op}[^{s2}]]"), "depth2-unions"));
                }
            }
        }
        let rot = (seed as usize * 7919) % block.len().max(1);
        block.rotate_left(rot);
        e.extend(block);
        fams.push(json!({"family": "depth 2 over unions: [S1 op S2], [^S1 op [^S2]] for all pairs of unions of <=2 items (156^2 x 3 x 2), enumeration order rotated by VERIF_SEED, cut by the wall-clock cap", "expressions": e.len() - n0}));
    }
    (e, fams)
}

fn collect_brackets(a: &Ast, out: &mut Vec<String>) {
    match a {
        Ast::ClassBracketed(_) => out.push(a.to_string()),
        Ast::Repetition(r) => collect_brackets(&r.ast, out),
        Ast::Group(g) => collect_brackets(&g.ast, out),
        Ast::Alternation(x) => x.asts.iter().for_each(|a| collect_brackets(a, out)),
        Ast::Concat(x) => x.asts.iter().for_each(|a| collect_brackets(a, out)),
        _ => {}
    }
}

fn ascii_of(s: &CharSet) -> String {
    (0u8..128).filter(|&u| s.contains(u as char)).map(|u| (u as char).escape_default().to_string()).collect()
}

#[derive(Default)]
struct Acc {
    checked: usize,
    nontrivial: usize,
    rejected: Vec<String>,
    viol: ViolAcc,
    samples: Samples,
    skipped_by_cap: usize,
    pointwise_crosschecks: usize,
}

fn unicode_table(pat: &str) -> Option<CharSet> {
    regex_syntax::Parser::new().parse(pat).ok().and_then(|h| match h.kind() {
        regex_syntax::hir::HirKind::Class(regex_syntax::hir::Class::Unicode(c)) => {
            let ranges: Vec<(char, char)> = c.ranges().iter().map(|r| (r.start(), r.end())).collect();
            Some(CharSet::from_pred(|c| ranges.iter().any(|(a, b)| *a <= c && c <= *b)))
        }
        _ => None,
    })
}

/// `\w`, `[:word:]`, `\d`, `\s` beyond ASCII: the table obtained from scnr must lie between the sets
/// on which scnr's own documentation and UTS #18 agree (word: Alphabetic + Nd + Pc + Join_Control +
/// Mn at least, Alphabetic + N + Pc + Join_Control + M at most; digit: Nd at least, N at most;
/// space: White_Space), compared on the scalars assigned in the independent tables' Unicode
/// version, 64 scalars tolerance.
pub fn perl_anchor(key: &str, got: &CharSet) -> Option<String> {
    let u = |p: &str| unicode_table(p).expect("regex-syntax knows this class");
    let assigned = u("\\p{Assigned}");
    let or = |a: &CharSet, b: &CharSet| a.zip(b, |x, y| x | y);
    let (lower, upper) = match key {
        "\\w" | "[:word:]" => {
            let (alpha, nd, n_all, pc, jc, mn, m_all) = (u("\\p{Alphabetic}"), u("\\p{Nd}"), u("\\p{N}"), u("\\p{Pc}"), u("\\p{Join_Control}"), u("\\p{Mn}"), u("\\p{M}"));
            (or(&or(&or(&alpha, &nd), &or(&pc, &jc)), &mn), or(&or(&or(&alpha, &n_all), &or(&pc, &jc)), &m_all))
        }
        "\\d" => (u("\\p{Nd}"), u("\\p{N}")),
        "\\s" => (u("\\p{White_Space}"), u("\\p{White_Space}")),
        _ => return None,
    };
    let missing = lower.zip(got, |l, g| l & !g).zip(&assigned, |d, a| d & a);
    let extra = got.zip(&upper, |g, u| g & !u).zip(&assigned, |d, a| d & a);
    if missing.count() + extra.count() > 64 {
        return Some(format!(
            "{key}: {} scalars of its documented core are not members (first: {:?}), {} members lie outside every documented reading (first: {:?})",
            missing.count(),
            missing.first_difference(&CharSet::empty()),
            extra.count(),
            extra.first_difference(&CharSet::empty())
        ));
    }
    None
}

pub fn run(tier: Tier) -> ! {
    let mut run = Run::new("C08", tier);
    let start = Instant::now();
    let cap_s: f64 = if tier == Tier::Quick { 600.0 } else { 900.0 };
    let (exprs, fams) = expressions(tier, run.seed);

    // 1. tabulate every named atom used alone
    let mut keys: Vec<String> = vec![];
    for (e, _) in &exprs {
        if let Ok(a) = parse_ast(e) {
            collect_atom_keys(&a, &mut keys);
        }
    }
    keys.sort();
    keys.dedup();
    let tabs = par_for(keys.len(), 1, Vec::new, |v: &mut Vec<(String, Result<CharSet, String>)>, i| v.push((keys[i].clone(), tabulate_pattern(&keys[i]))));
    let mut tables = AtomTables::default();
    let mut viol = ViolAcc::default();
    let mut unsupported_atoms = vec![];
    for (k, r) in tabs.into_iter().flatten() {
        match r {
            Ok(s) => {
                tables.tables.insert(k, s);
            }
            Err(e) => unsupported_atoms.push((k, e)),
        }
    }
    // anchors of the statement
    let anchor = |key: &str, want: &str, viol: &mut ViolAcc| {
        if let Some(s) = tables.tables.get(key) {
            let got = ascii_of(s);
            let want_set: String = (0u8..128).filter(|&u| want.contains(u as char)).map(|u| (u as char).escape_default().to_string()).collect();
            if got != want_set {
                viol.add("", || Violation { key: String::new(), summary: format!("{key} restricted to ASCII is {got:?}, expected {want_set:?}"), replay: json!({"pattern": key, "input": "every ASCII character", "got": got, "expected": want_set}) });
            }
        }
    };
    anchor("\\d", "0123456789", &mut viol);
    anchor("\\s", "\t\n\x0B\x0C\r ", &mut viol);
    anchor("\\w", "0123456789ABCDEFGHIJKLMNOPQRSTUVWXYZabcdefghijklmnopqrstuvwxyz_", &mut viol);
    // independent anchors of the named atoms beyond ASCII (the atoms stay opaque in the algebra
    // below; here their tables are tied to Unicode data scnr does not use: regex-syntax's tables).
    // A binary property scnr documents must be that property (tolerance for differing Unicode
    // versions: 2 % of the smaller of set and complement, at least 64 scalars); \w, \d, \s and
    // [[:word:]] must lie between the sets on which scnr's documentation and UTS #18 agree.
    let uni = unicode_table;
    // scalars assigned in the Unicode version of the independent tables; the comparison is
    // restricted to them (scnr's tables may belong to a later version that assigns more)
    let assigned = uni("\\p{Assigned}").expect("regex-syntax knows Assigned");
    let mut anchored = 0usize;
    for n in NAMED.iter().chain(["XID_Start"].iter()) {
        let key = format!("\\p{{{n}}}");
        if let (Some(got), Some(truth)) = (tables.tables.get(&key), uni(&key)) {
            anchored += 1;
            let diff = truth.zip(got, |x, y| x ^ y).zip(&assigned, |d, a| d & a);
            let differing = diff.count();
            let size = truth.count().min(truth.complement().count()).max(3200);
            if differing * 50 > size {
                let first = diff.first_difference(&CharSet::empty());
                viol.add("", || Violation { key: String::new(), summary: format!("{key} does not denote its Unicode property: {differing} scalars differ from the Unicode tables (first: {first:?})"), replay: json!({"pattern": key, "input": "every scalar value", "differing": differing, "first": format!("{first:?}")}) });
            }
        }
    }
    for key in ["\\w", "[:word:]", "\\d", "\\s"] {
        if let Some(got) = tables.tables.get(key) {
            anchored += 1;
            if let Some(problem) = perl_anchor(key, got) {
                viol.add("", || Violation { key: String::new(), summary: problem.clone(), replay: json!({"pattern": key, "input": "every scalar value", "problem": problem}) });
            }
        }
    }
    // top level: a literal matches only itself, `.` everything but \n and \r
    let mut toplevel = 0;
    for (pat, want) in [("a", Some('a')), ("é", Some('é')), ("\\.", Some('.')), ("\\n", Some('\n')), ("\\x41", Some('A')), ("\\u{1F600}", Some('😀')), ("\\-", Some('-')), (".", None)] {
        toplevel += 1;
        match tabulate_pattern(pat) {
            Err(e) => viol.add("", || Violation { key: String::new(), summary: format!("pattern {pat:?}: {e}"), replay: json!({"pattern": pat, "error": e}) }),
            Ok(got) => {
                let want_set = match want {
                    Some(c) => {
                        let mut s = CharSet::empty();
                        s.insert(c);
                        s
                    }
                    None => CharSet::from_pred(|c| c != '\n' && c != '\r'),
                };
                if let Some(c) = got.first_difference(&want_set) {
                    viol.add("", || Violation { key: String::new(), summary: format!("pattern {pat:?}: membership of {:?} (U+{:04X}) is {}, expected {}", c, c as u32, got.contains(c), want_set.contains(c)), replay: json!({"pattern": pat, "char": c.to_string(), "codepoint": c as u32, "got": got.contains(c), "expected": want_set.contains(c)}) });
                }
            }
        }
    }

    // 2. every expression over all scalars
    let accs = par_for(exprs.len(), 1, || Acc { samples: Samples::new(1), ..Default::default() }, |acc, i| {
        let (e, fam) = &exprs[i];
        if start.elapsed().as_secs_f64() > cap_s {
            acc.skipped_by_cap += 1;
            return;
        }
        let a = match parse_ast(e) {
            Ok(a) => a,
            Err(_) => {
                acc.rejected.push(format!("{e} (does not parse)"));
                return;
            }
        };
        let mut ks = vec![];
        collect_atom_keys(&a, &mut ks);
        if ks.iter().any(|k| !tables.tables.contains_key(k)) {
            acc.rejected.push(format!("{e} (uses an atom that does not build alone)"));
            return;
        }
        let want = match &a {
            Ast::ClassBracketed(b) => bracket_set(b, &tables),
            Ast::ClassPerl(p) => {
                let at = refsem::sem::perl_atom(p);
                let s = tables.get(&at.key);
                if at.negated { s.complement() } else { s.clone() }
            }
            Ast::ClassUnicode(u) => {
                let at = refsem::sem::unicode_atom(u);
                let s = tables.get(&at.key);
                if at.negated { s.complement() } else { s.clone() }
            }
            _ => {
                acc.rejected.push(format!("{e} (not a class)"));
                return;
            }
        };
        let got = match tabulate_pattern(e) {
            Ok(g) => g,
            Err(err) => {
                acc.viol.add("", || Violation { key: String::new(), summary: format!("class {e}: {err}"), replay: json!({"pattern": e, "error": err}) });
                return;
            }
        };
        acc.checked += 1;
        let cnt = got.count();
        if cnt > 0 && cnt < refsem::sem::N_SCALARS {
            acc.nontrivial += 1;
        }
        if let Some(c) = got.first_difference(&want) {
            acc.viol.add("", || Violation {
                key: String::new(),
                summary: format!("class {e}: membership of {:?} (U+{:04X}) is {}, the set algebra of its items gives {}", c, c as u32, got.contains(c), want.contains(c)),
                replay: json!({"pattern": e, "family": fam, "char": c.to_string(), "codepoint": c as u32, "got": got.contains(c), "expected": want.contains(c),
                    "how": "build the single pattern, scan the string of all scalars, the one-character tokens are the members"}),
            });
        }
        // oracle self-check: the word-wise denotation equals the pointwise one on a spread of scalars
        if let Ast::ClassBracketed(b) = &a {
            if i % 16 == 0 {
                acc.pointwise_crosschecks += 1;
                for u in (0u32..0x110000).step_by(97) {
                    if let Some(c) = char::from_u32(u) {
                        if bracket_has(b, c, &tables) != want.contains(c) {
                            refsem::evidence::machinery(&format!("oracle self-check failed on {e} at U+{u:04X}"));
                        }
                    }
                }
            }
        }
        if acc.samples.items.is_empty() {
            acc.samples.push(|| json!({"expression": e, "family": fam, "members": cnt}));
        }
    });
    // 3. context independence: two classes in ONE scanner (the class registry is shared): for
    // every scalar the token type is 0 if X contains it, else 1 if Y contains it, else no token.
    let menu = refsem::families::class_menu();
    let mut menu_sets: Vec<Option<CharSet>> = vec![];
    for m in &menu {
        menu_sets.push(tabulate_pattern(m).ok());
    }
    let pairs: Vec<(usize, usize)> = (0..menu.len()).flat_map(|x| (0..menu.len()).map(move |y| (x, y))).collect();
    let pair_accs = par_for(pairs.len(), 1, || Acc { samples: Samples::new(1), ..Default::default() }, |acc, i| {
        let (xi, yi) = pairs[i];
        let (Some(xs), Some(ys)) = (&menu_sets[xi], &menu_sets[yi]) else { return };
        if start.elapsed().as_secs_f64() > cap_s {
            acc.skipped_by_cap += 1;
            return;
        }
        let cfg = bridge::Cfg::single(vec![bridge::CPat::new(menu[xi], 0), bridge::CPat::new(menu[yi], 1)]);
        let all = bridge::all_scalars_string();
        let r = bridge::catch(|| {
            let sc = cfg.build_uncached().map_err(|e| e.to_string())?;
            let (mut g0, mut g1) = (CharSet::empty(), CharSet::empty());
            for m in sc.find_iter(all) {
                let c = all[m.start()..m.end()].chars().next().unwrap();
                if m.end() - m.start() != c.len_utf8() {
                    return Err(format!("token {}..{} is not one character", m.start(), m.end()));
                }
                if m.token_type() == 0 { g0.insert(c) } else { g1.insert(c) }
            }
            Ok((g0, g1))
        });
        acc.checked += 1;
        match r {
            Ok(Ok((g0, g1))) => {
                let want1 = ys.zip(xs, |y, x| y & !x);
                let bad = g0.first_difference(xs).map(|c| (c, 0)).or_else(|| g1.first_difference(&want1).map(|c| (c, 1)));
                if let Some((c, which)) = bad {
                    acc.viol.add("", || Violation {
                        key: String::new(),
                        summary: format!("classes {} and {} in one scanner: {:?} (U+{:04X}) is {}reported for pattern #{which}, but used alone the class {} it", menu[xi], menu[yi], c, c as u32, if (if which == 0 { &g0 } else { &g1 }).contains(c) { "" } else { "not " }, if (if which == 0 { xs } else { &want1 }).contains(c) { "contains" } else { "does not contain" }),
                        replay: json!({"patterns": [menu[xi], menu[yi]], "char": c.to_string(), "codepoint": c as u32, "how": "build both patterns (token types 0, 1) in one mode, scan the string of all scalars"}),
                    });
                }
                acc.nontrivial += 1;
            }
            Ok(Err(e)) | Err(e) => acc.viol.add("", || Violation { key: String::new(), summary: format!("classes {} and {} in one scanner: {e}", menu[xi], menu[yi]), replay: json!({"patterns": [menu[xi], menu[yi]], "error": e}) }),
        }
    });
    // 4. many classes in ONE scanner: a class X as the first pattern, N single-character filler
    // patterns (each its own class), a class Y as the last pattern, for N around 64, 128 and 256
    // (anything kept per class id - bit sets, memo tables, id arithmetic - wraps at such sizes).
    // For every scalar: type 0 iff X contains it, else the filler's type, else 1 iff Y contains it.
    let many_items: Vec<(usize, &str, &str)> = [30usize, 62, 63, 64, 65, 66, 126, 127, 128, 129, 255, 256, 257, 300]
        .iter()
        .flat_map(|n| [("[a-c]", "[x-z]"), ("[x-z]", "[a-c]"), ("\\d", "[0-9a-fx]"), ("[^\\x00-\\x7f]", "[\\x00-z]"), ("[[:alpha:]&&[^c]]", "\\w")].into_iter().map(move |(x, y)| (*n, x, y)))
        .collect();
    let many_accs = par_for(many_items.len(), 1, || Acc { samples: Samples::new(1), ..Default::default() }, |acc, i| {
        let (n, x, y) = many_items[i];
        let (Ok(xs), Ok(ys)) = (tabulate_pattern(x), tabulate_pattern(y)) else { return };
        if start.elapsed().as_secs_f64() > cap_s {
            acc.skipped_by_cap += 1;
            return;
        }
        let fillers: Vec<char> = (0..n).map(|k| char::from_u32(0x4e00 + 7 * k as u32).unwrap()).collect();
        let mut pats = vec![bridge::CPat::new(x, 0)];
        pats.extend(fillers.iter().enumerate().map(|(k, c)| bridge::CPat::new(&c.to_string(), k + 2)));
        pats.push(bridge::CPat::new(y, 1));
        let cfg = bridge::Cfg::single(pats);
        let all = bridge::all_scalars_string();
        let r = bridge::catch(|| {
            let sc = cfg.build_uncached().map_err(|e| e.to_string())?;
            let (mut g0, mut g1) = (CharSet::empty(), CharSet::empty());
            let mut filler_hits = 0usize;
            for m in sc.find_iter(all) {
                let c = all[m.start()..m.end()].chars().next().unwrap();
                if m.end() - m.start() != c.len_utf8() {
                    return Err(format!("token {}..{} is not one character", m.start(), m.end()));
                }
                match m.token_type() {
                    0 => g0.insert(c),
                    1 => g1.insert(c),
                    t => {
                        if fillers.get(t - 2) != Some(&c) {
                            return Err(format!("{c:?} (U+{:04X}) is reported with token type {t}, which belongs to the filler {:?}", c as u32, fillers.get(t - 2)));
                        }
                        filler_hits += 1;
                    }
                }
            }
            Ok((g0, g1, filler_hits))
        });
        acc.checked += 1;
        match r {
            Ok(Ok((g0, g1, filler_hits))) => {
                let mut fs = CharSet::empty();
                for c in &fillers {
                    fs.insert(*c);
                }
                let want1 = ys.zip(&xs, |y, x| y & !x).zip(&fs, |y, f| y & !f);
                let want_fillers = fs.zip(&xs, |f, x| f & !x).count();
                let bad = g0.first_difference(&xs).map(|c| (c, 0)).or_else(|| g1.first_difference(&want1).map(|c| (c, 1)));
                if let Some((c, which)) = bad {
                    acc.viol.add("", || Violation {
                        key: String::new(),
                        summary: format!("{x} first, {n} one-character filler patterns, {y} last in one scanner: {c:?} (U+{:04X}) is {}reported for the {} pattern, but used alone the class {} it", c as u32, if (if which == 0 { &g0 } else { &g1 }).contains(c) { "" } else { "not " }, if which == 0 { "first" } else { "last" }, if (if which == 0 { &xs } else { &want1 }).contains(c) { "contains" } else { "does not contain" }),
                        replay: json!({"patterns": format!("{x} => 0, then {n} literals U+4E00, U+4E07, ... (step 7) => 2.., then {y} => 1"), "char": c.to_string(), "codepoint": c as u32, "how": "build all patterns in one mode, scan the string of all scalars"}),
                    });
                } else if filler_hits != want_fillers {
                    acc.viol.add("", || Violation { key: String::new(), summary: format!("{x} first, {n} one-character filler patterns, {y} last in one scanner: {filler_hits} fillers are reported, expected {want_fillers}"), replay: json!({"patterns": format!("{x} => 0, then {n} literals U+4E00, U+4E07, ... (step 7) => 2.., then {y} => 1"), "how": "build all patterns in one mode, scan the string of all scalars"}) });
                }
                acc.nontrivial += 1;
            }
            Ok(Err(e)) | Err(e) => acc.viol.add("", || Violation { key: String::new(), summary: format!("{x} first, {n} fillers, {y} last in one scanner: {e}"), replay: json!({"patterns": [x, y], "fillers": n, "error": e}) }),
        }
    });
    let many_n = many_items.len();
    let mut total = Acc { samples: Samples::new(8), ..Default::default() };
    for a in accs.into_iter().chain(pair_accs).chain(many_accs) {
        total.checked += a.checked;
        total.nontrivial += a.nontrivial;
        total.rejected.extend(a.rejected);
        total.viol.merge(a.viol);
        total.samples.merge(a.samples);
        total.skipped_by_cap += a.skipped_by_cap;
        total.pointwise_crosschecks += a.pointwise_crosschecks;
    }
    viol.merge(total.viol);
    let n_dis = viol.total();
    viol.flush(&mut run);
    let mut cov = Map::new();
    cov.insert("evaluations".into(), json!(total.checked + toplevel));
    cov.insert("distinct_nontrivial".into(), json!(total.nontrivial));
    cov.insert("rule".into(), json!("one evaluation = one class expression compiled as a one-pattern scanner and decided on ALL 1,112,064 scalar values through the public API; expressions are generated as distinct strings; non-trivial = the class has at least one member and at least one non-member"));
    cov.insert("samples".into(), json!(total.samples.items));
    cov.insert("exhaustive".into(), json!(total.skipped_by_cap == 0));
    cov.insert("scalars_per_expression".into(), json!(refsem::sem::N_SCALARS));
    cov.insert("expressions_generated".into(), json!(exprs.len()));
    cov.insert("expressions_skipped_by_wall_clock_cap".into(), json!(total.skipped_by_cap));
    cov.insert("wall_clock_cap_s".into(), json!(cap_s));
    cov.insert("expressions_not_checked".into(), json!(total.rejected.iter().take(20).collect::<Vec<_>>()));
    cov.insert("expressions_not_checked_count".into(), json!(total.rejected.len()));
    cov.insert("named_atoms_tabulated".into(), json!(tables.tables.len()));
    cov.insert("named_atoms_anchored_to_independent_unicode_tables".into(), json!(anchored));
    cov.insert("named_atoms_that_do_not_build".into(), json!(unsupported_atoms.iter().map(|(k, e)| format!("{k}: {e}")).collect::<Vec<_>>()));
    cov.insert("oracle_pointwise_crosschecks".into(), json!(total.pointwise_crosschecks));
    let mut fams = fams;
    fams.push(json!({"family": "context independence: every ordered pair of the class menu as two patterns of one scanner, all scalars", "menu": menu, "pairs": pairs.len(), "exhaustive": true}));
    fams.push(json!({"family": "many classes in one scanner: class X first, N one-character filler patterns, class Y last, for N in 30, 62..66, 126..129, 255..257, 300 and five (X, Y) pairs; all scalars", "scanners": many_n, "exhaustive": true}));
    cov.insert("families".into(), json!(fams));
    cov.insert("disagreeing_expressions".into(), json!(n_dis));
    run.finish(
        "exploration",
        cov,
        &[
            "an unescaped `.` as a class item is the dot set (README and fixtures rely on it)",
            "named atoms are opaque: their set is what the atom denotes when used alone; only the ASCII anchors of \\d \\s \\w from the statement are asserted on the tables",
            "regex-syntax's parser is shared with scnr and trusted",
        ],
    )
}
