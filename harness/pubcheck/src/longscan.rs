//! Reference scan for long inputs (corpora, synthetic long inputs): Glushkov simulation per pattern
//! from each scan position, token rule of DESIGN.md 4.3, mode model of 4.4. Used by C01 and C04.

use bridge::Cfg;
use refsem::glushkov::Glushkov;
use refsem::model::ModeSpec;
use refsem::sem::AtomTables;

pub struct LongRef {
    pub spec: Vec<ModeSpec>,
    glus: Vec<Vec<(Glushkov, Option<Glushkov>)>>,
}

impl LongRef {
    pub fn new(cfg: &Cfg) -> Result<LongRef, String> {
        let spec = cfg.to_spec()?;
        let glus = spec.iter().map(|m| m.patterns.iter().map(|p| (Glushkov::build(&p.regex), p.la.as_ref().map(|(_, l)| Glushkov::build(l)))).collect()).collect();
        Ok(LongRef { spec, glus })
    }

    /// Admissible `(token type, ends)` at character position `p` in `mode` (ends as char indices).
    pub fn token_at(&self, mode: usize, chars: &[char], p: usize, t: &AtomTables) -> Option<(usize, Vec<usize>, u32)> {
        let m = &self.spec[mode];
        let mut best_extent = 0usize;
        let mut cands: Vec<(usize, usize, usize)> = vec![];
        for (i, pat) in m.patterns.iter().enumerate() {
            let (g, lg) = &self.glus[mode][i];
            for l in g.match_lengths(&pat.regex, chars[p..].iter().copied(), t) {
                if l == 0 {
                    continue;
                }
                let e = p + l;
                let (ok, lalen) = match (&pat.la, lg) {
                    (None, _) => (true, 0),
                    (Some((positive, la)), Some(lg)) => {
                        let longest = lg.match_lengths(la, chars[e..].iter().copied(), t).into_iter().filter(|&x| x > 0).max();
                        match (positive, longest) {
                            (true, Some(x)) => (true, x),
                            (true, None) => (false, 0),
                            (false, Some(_)) => (false, 0),
                            (false, None) => (true, 0),
                        }
                    }
                    _ => unreachable!(),
                };
                if ok {
                    cands.push((i, e, l + lalen));
                    best_extent = best_extent.max(l + lalen);
                }
            }
        }
        if cands.is_empty() {
            return None;
        }
        let winner = cands.iter().filter(|c| c.2 == best_extent).map(|c| c.0).min().unwrap();
        let ends: Vec<usize> = cands.iter().filter(|c| c.0 == winner && c.2 == best_extent).map(|c| c.1).collect();
        let mut pats: Vec<usize> = cands.iter().map(|c| c.0).collect();
        pats.dedup();
        Some((m.patterns[winner].token_type, ends, pats.len() as u32))
    }

    /// Compares a complete token stream of the real scanner (from offset 0, mode 0) with the rule.
    /// Returns `(tokens compared, positions where patterns competed, first disagreement)`.
    pub fn compare_stream(&self, input: &str, toks: &[(usize, usize, usize)], t: &AtomTables) -> (usize, usize, Option<String>) {
        let chars: Vec<char> = input.chars().collect();
        let mut byte_of = Vec::with_capacity(chars.len() + 1);
        let mut b = 0;
        for c in &chars {
            byte_of.push(b);
            b += c.len_utf8();
        }
        byte_of.push(b);
        let char_of = |byte: usize| byte_of.binary_search(&byte).ok();
        let (mut pos, mut mode, mut n, mut competed) = (0usize, 0usize, 0usize, 0usize);
        for &(tt, s, e) in toks {
            let (Some(sc), Some(ec)) = (char_of(s), char_of(e)) else { return (n, competed, Some(format!("token ({tt},{s}..{e}) is not on character boundaries"))) };
            if sc < pos || ec <= sc {
                return (n, competed, Some(format!("token ({tt},{s}..{e}) overlaps the previous token or is empty")));
            }
            for q in pos..sc {
                if let Some((wt, ends, _)) = self.token_at(mode, &chars, q, t) {
                    return (n, competed, Some(format!("token ({tt},{s}..{e}) reported, but a token of type {wt} starts earlier at byte {} (ends {:?})", byte_of[q], ends.iter().map(|x| byte_of[*x]).collect::<Vec<_>>())));
                }
            }
            match self.token_at(mode, &chars, sc, t) {
                None => return (n, competed, Some(format!("token ({tt},{s}..{e}) starts where no pattern of mode {mode} matches"))),
                Some((wt, ends, np)) => {
                    if wt != tt || !ends.contains(&ec) {
                        return (n, competed, Some(format!("token ({tt},{s}..{e}) reported, the rule prescribes type {wt} ending at {:?}", ends.iter().map(|x| byte_of[*x]).collect::<Vec<_>>())));
                    }
                    if np > 1 {
                        competed += 1;
                    }
                }
            }
            n += 1;
            pos = ec;
            if let Some(target) = self.spec[mode].transition(tt) {
                mode = target;
            }
        }
        for q in pos..chars.len() {
            if let Some((wt, _, _)) = self.token_at(mode, &chars, q, t) {
                return (n, competed, Some(format!("iteration ended at byte {}, but a token of type {wt} starts at byte {}", byte_of[pos], byte_of[q])));
            }
        }
        (n, competed, None)
    }
}

/// The long-input cases: `(name, configuration, input)`.
pub fn long_cases(with_lookahead: bool) -> Vec<(String, Cfg, String)> {
    use bridge::CPat;
    let mut v = vec![];
    for (name, cfg, input) in bridge::corpora(true) {
        if cfg.has_lookahead() != with_lookahead {
            continue;
        }
        if let Some(i) = input {
            v.push((format!("corpus:{name} on its input file"), cfg.clone(), i));
        }
        if name == "parol" {
            if let Ok(i) = std::fs::read_to_string(bridge::repo_root().join("scnr/benches/input_1.par")) {
                v.push(("corpus:parol on benches/input_1.par".into(), cfg, i));
            }
        }
    }
    if !with_lookahead {
        let c1 = Cfg::single(vec![CPat::new("a+", 0), CPat::new("b", 1), CPat::new(" ", 2), CPat::new("é+x", 3)]);
        v.push(("one token of 70 000 bytes".into(), c1.clone(), "a".repeat(70_000)));
        v.push(("90 000 bytes, 60 000 tokens crossing offset 65 536".into(), c1.clone(), "ab ".repeat(30_000)));
        v.push(("multi-byte run longer than 65 536 bytes, then a token".into(), c1.clone(), format!("{}x ab", "é".repeat(40_000))));
        v.push(("300 unmatched characters between tokens".into(), c1.clone(), format!("a{}b{}aa", "#".repeat(300), "€".repeat(300))));
        v.push(("tokens of length 255, 256, 257".into(), c1, format!("{} {} {}", "a".repeat(255), "a".repeat(256), "a".repeat(257))));
        // every scalar value exactly once, in ascending order: every character has to end up in
        // exactly one token of the right type
        let all = bridge::all_scalars_string().to_string();
        v.push(("every scalar value once: ASCII letters / other ASCII / everything else".into(), Cfg::single(vec![CPat::new("[a-zA-Z]+", 0), CPat::new("[\\x00-\\x7f]", 1), CPat::new("[^\\x00-\\x7f]", 2)]), all.clone()));
        v.push(("every scalar value once: dot / line feed".into(), Cfg::single(vec![CPat::new(".", 0), CPat::new("\\n", 1)]), all.clone()));
        v.push(("every scalar value once: literals \\x7f, \\x80, \\u{ffff}, \\u{10000} between [^a]".into(), Cfg::single(vec![CPat::new("\\x7f", 0), CPat::new("\\x{80}", 1), CPat::new("\\x{ffff}", 2), CPat::new("\\x{10000}", 3), CPat::new("\\x{10ffff}", 4), CPat::new("\\x00", 5), CPat::new("[^a]", 6)]), all));
        let c2 = Cfg {
            modes: vec![
                bridge::CMode { name: "A".into(), pats: vec![CPat::new("[a-z]+", 0), CPat::new("\"", 1), CPat::new("\\s+", 2)], transitions: vec![(1, 1)] },
                bridge::CMode { name: "S".into(), pats: vec![CPat::new("[^\"]+", 3), CPat::new("\"", 1)], transitions: vec![(1, 0)] },
            ],
        };
        v.push(("two modes, 20 000 mode switches".into(), c2, "ab \"cd ef\" ".repeat(10_000)));
    } else {
        let c = Cfg::single(vec![CPat::new("a+", 0).with_la(true, "b"), CPat::new("a+", 1).with_la(false, "b"), CPat::new("b", 2), CPat::new(" ", 3)]);
        v.push(("lookahead behind a token of 70 000 bytes".into(), c.clone(), format!("{}b {}", "a".repeat(70_000), "a".repeat(300))));
        v.push(("lookaheads beyond offset 65 536".into(), c, "aab aa ".repeat(12_000)));
        // lookaheads that have to read far before they decide (255, 256, 257, 1 000, 70 000 blanks)
        let far = Cfg::single(vec![CPat::new("[0-9]+", 4).with_la(false, "[ ]*;"), CPat::new("[0-9]+", 5), CPat::new("[a-z]+", 6).with_la(true, "[ ]*="), CPat::new("[a-z]+", 7), CPat::new("[;=]", 8), CPat::new("[ ]+", 9)]);
        for n in [255usize, 256, 257, 1_000, 70_000] {
            v.push((format!("lookahead across {n} blanks"), far.clone(), format!("12{b}; 34{b}x ab{b}= cd{b}y", b = " ".repeat(n))));
        }
    }
    v
}
