//! Compile probe: `scnr::Scanner` is `Send + Sync` (a type-system fact decided by rustc).
fn _requires_send_sync<T: Send + Sync>() {}
fn _probe() {
    _requires_send_sync::<scnr::Scanner>();
}
