//! `deepprobe <shape> <depth> <pattern|lookahead>`: builds one deeply nested pattern through scnr's
//! public API on a thread with a 2 MiB stack and prints ok / err / panic. Unoptimised build.
use scnr::{Lookahead, Pattern, ScannerBuilder, ScannerMode};

fn main() {
    let args: Vec<String> = std::env::args().collect();
    let shape = args[1].as_str();
    let d: usize = args[2].parse().expect("depth");
    let pat = match shape {
        "groups" => format!("{}a{}", "(".repeat(d), ")".repeat(d)),
        "alternations" => format!("{}a{}", "(a|".repeat(d), ")".repeat(d)),
        "repetitions" => format!("{}a{}", "(".repeat(d), ")*".repeat(d)),
        "classes" => format!("{}{}", "[a".repeat(d), "]".repeat(d)),
        _ => format!("{}{}", "(a".repeat(d), ")".repeat(d)),
    };
    let pattern = if args[3] == "lookahead" { Pattern::new("a".to_string(), 0).with_lookahead(Lookahead::new(true, pat)) } else { Pattern::new(pat, 0) };
    std::panic::set_hook(Box::new(|_| {}));
    let h = std::thread::Builder::new()
        .stack_size(2 << 20)
        .spawn(move || {
            let r = std::panic::catch_unwind(move || ScannerBuilder::new().add_scanner_mode(ScannerMode::new("M", vec![pattern], vec![])).build_uncached().is_ok());
            match r {
                Ok(true) => "ok",
                Ok(false) => "err",
                Err(_) => "panic",
            }
        })
        .expect("spawn");
    println!("{}", h.join().unwrap_or("panic"));
}
