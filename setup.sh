#!/usr/bin/env bash
# Builds the harness offline from files on disk only.
set -e
cd "$(dirname "$0")"
export CARGO_NET_OFFLINE=true
export CARGO_TARGET_DIR="$(pwd)/harness/target"
mkdir -p evidence replays
cd harness
cargo build --release --offline -p pubcheck -p hookcheck
