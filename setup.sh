#!/usr/bin/env bash
# Builds the harness offline from files on disk only (each package separately so that cargo does not
# unify the scnr features of different harness binaries).
set -e
cd "$(dirname "$0")"
export CARGO_NET_OFFLINE=true
export CARGO_TARGET_DIR="$(pwd)/harness/target"
mkdir -p evidence replays
cd harness
for p in pubcheck hookcheck loomcheck; do
  cargo build --release --offline -p $p
done
# unoptimised probe for family (h) of C15
cargo build --offline -p deepprobe
CARGO_TARGET_DIR="$(pwd)/target/probe" cargo build --release --offline --manifest-path sendsync_probe/Cargo.toml
